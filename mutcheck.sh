#!/bin/bash
# ./mutcheck.sh <patch.diff> <ID> [tier]  — apply a seeded change to /repo, run one check, undo the change.
# Used only while validating the machinery; never leaves /repo modified.
P="$1"; ID="$2"; TIER="${3:-quick}"
cd /repo || exit 3
if ! git diff --quiet; then echo "/repo has uncommitted changes; refusing"; exit 3; fi
if ! git apply --check "$P" 2>/dev/null; then echo "patch does not apply: $P"; exit 3; fi
git apply "$P"
cd /verif
# the evidence file of the unchanged tree must survive a run against a seeded change
cp -f /verif/evidence/$ID.json /verif/target/evidence-$ID.keep 2>/dev/null
timeout 3600 ./check "$ID" --tier "$TIER" > /tmp/mutcheck-$$.log 2>&1
rc=$?
git -C /repo checkout -- .
[ -f /verif/target/evidence-$ID.keep ] && mv -f /verif/target/evidence-$ID.keep /verif/evidence/$ID.json
grep -E "^(VIOLATION|KNOWN-FINDING|OK|INCONCLUSIVE|  signature)" /tmp/mutcheck-$$.log | cut -c1-260 | head -12
echo "exit=$rc"
rm -f /tmp/mutcheck-$$.log
exit $rc
