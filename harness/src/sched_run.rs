// ---- programs, workers, one run (included into sched.rs) -------------------------------------

use crate::model::Req;
use crate::out::Out;
use crate::Args;

#[derive(Clone, Debug, PartialEq)]
pub enum POp {
    Alloc { slot: usize, req: Req, ty: u8, owned: bool },
    Fill { slot: usize },
    Drop { slot: usize },
    DetachDrop { slot: usize },
    Leak { slot: usize },
    CloneArena,
    DropClone,
    DiscardFreelist,
    Send { slot: usize },
    Recv { slot: usize },
}

impl POp {
    fn name(&self) -> &'static str {
        match self {
            POp::Alloc { req: Req::Bytes(_), .. } => "alloc_bytes",
            POp::Alloc { req: Req::Aligned { .. }, .. } => "alloc_aligned",
            POp::Alloc { req: Req::Typed { .. }, .. } => "alloc_typed",
            POp::Fill { .. } => "fill",
            POp::Drop { .. } => "drop",
            POp::DetachDrop { .. } => "detach_drop",
            POp::Leak { .. } => "leak",
            POp::CloneArena => "clone_arena",
            POp::DropClone => "drop_clone",
            POp::DiscardFreelist => "discard_freelist",
            POp::Send { .. } => "send",
            POp::Recv { .. } => "recv",
        }
    }
}

#[derive(Clone, Debug)]
pub struct RunCfg {
    pub freelist: FL,
    pub unify: bool,
    pub min_seg: u32,
    pub cap_room: u32,
    pub retries: u8,
    pub threads: usize,
    pub prelude_blocks: usize,
    pub top_room: u32,
    pub family_b: bool,
    pub programs: Vec<Vec<POp>>,
    pub strategy: Strategy,
    pub spurious_pct: u32,
    pub seed: u64,
    pub run: u64,
    pub main_drops_first: bool,
}

impl RunCfg {
    pub fn to_json(&self) -> J {
        crate::jobj!(
            "freelist" => self.freelist.name(), "unify" => self.unify, "min_seg" => self.min_seg, "cap_room" => self.cap_room,
            "threads" => self.threads, "prelude_blocks" => self.prelude_blocks, "top_room" => self.top_room, "family" => if self.family_b { "B" } else { "A" },
            "strategy" => format!("{:?}", self.strategy), "spurious_pct" => self.spurious_pct, "main_drops_first" => self.main_drops_first,
            "programs" => J::Arr(self.programs.iter().map(|p| J::Arr(p.iter().map(|o| J::Str(format!("{:?}", o))).collect())).collect()),
        )
    }
}

pub struct Slot {
    h: Option<Box<dyn Handle + Send>>,
    hid: u64,
    off: u32,
    cap: u32,
    gen: u32,
    owned: bool,
}

/// Handles are forgotten, not dropped, when a run is abandoned (their destructors would re-enter the arena).
pub struct Slots(pub Vec<Slot>, pub Vec<sync::Arena>);
impl Drop for Slots {
    fn drop(&mut self) {
        if std::thread::panicking() {
            for s in self.0.drain(..) {
                std::mem::forget(s.h);
            }
            for a in self.1.drain(..) {
                std::mem::forget(a);
            }
        }
    }
}

struct SendHandle(Box<dyn Handle>);
unsafe impl Send for SendHandle {}

static MAILBOX: Mutex<Option<(SendHandle, u64, u32, u32, u32)>> = Mutex::new(None);

pub fn gen_programs(rng: &mut Rng, threads: usize, ops: usize, family_b: bool, sizes: &[u32], teardown_heavy: bool) -> Vec<Vec<POp>> {
    let mut out = vec![];
    for _t in 0..threads {
        let nslots = 4;
        let mut occ = vec![false; nslots];
        let mut p = vec![];
        let mut clones = 0usize;
        for _ in 0..ops {
            let free: Vec<usize> = (0..nslots).filter(|i| !occ[*i]).collect();
            let used: Vec<usize> = (0..nslots).filter(|i| occ[*i]).collect();
            let r = rng.below(100);
            if (r < 45 || used.is_empty()) && !free.is_empty() {
                let slot = *rng.pick(&free);
                let owned = rng.chance(1, 4);
                let k = rng.below(100);
                let (req, ty) = if family_b && k < 30 {
                    let ty = *rng.pick(&[8u8, 9, 11, 6, 10]);
                    let ti = ty_info(ty);
                    (Req::Typed { size: ti.size, align: ti.align }, ty)
                } else if family_b && k < 45 {
                    let ty = *rng.pick(&[8u8, 11, 4]);
                    let ti = ty_info(ty);
                    (Req::Aligned { size: ti.size, align: ti.align, extra: *rng.pick(sizes) / 2 }, ty)
                } else {
                    (Req::Bytes(*rng.pick(sizes)), 0)
                };
                occ[slot] = true;
                p.push(POp::Alloc { slot, req, ty, owned });
            } else if r < 55 && !used.is_empty() {
                p.push(POp::Fill { slot: *rng.pick(&used) });
            } else if r < 85 && !used.is_empty() {
                let slot = *rng.pick(&used);
                occ[slot] = false;
                p.push(POp::Drop { slot });
            } else if r < 88 && !used.is_empty() {
                let slot = *rng.pick(&used);
                occ[slot] = false;
                p.push(POp::DetachDrop { slot });
            } else if r < 90 && !used.is_empty() {
                let slot = *rng.pick(&used);
                occ[slot] = false;
                p.push(POp::Leak { slot });
            } else if r < 94 || teardown_heavy {
                if clones > 0 && rng.bool() {
                    clones -= 1;
                    p.push(POp::DropClone);
                } else if clones < 2 {
                    clones += 1;
                    p.push(POp::CloneArena);
                }
            } else if r < 96 {
                p.push(POp::DiscardFreelist);
            } else if !used.is_empty() && rng.bool() {
                let slot = *rng.pick(&used);
                occ[slot] = false;
                p.push(POp::Send { slot });
            } else if !free.is_empty() {
                let slot = *rng.pick(&free);
                // the slot may stay empty if the mailbox is empty
                p.push(POp::Recv { slot });
            }
        }
        out.push(p);
    }
    out
}

pub struct RunResult {
    pub events: u64,
    pub steps: u64,
    pub preemptions: u64,
    pub sched_hash: u64,
    pub hang: bool,
    pub viols: Vec<Viol>,
    pub ring: Vec<String>,
    pub windows: HashMap<String, u64>,
    pub handover_checks: u64,
    pub trace_rule_checks: u64,
    pub intact_checks: u64,
    pub final_free_checks: u64,
    pub refs_checks: u64,
    pub c03_checks: u64,
    pub c08_checks: u64,
    pub c08_recycled_checks: u64,
    pub max_since_write: u64,
    pub b_budget: u64,
    pub op_events: Vec<Vec<(String, usize)>>,
    pub arena_panic: Option<String>,
    pub schedule: Vec<u8>,
    pub slow_path_ops: u64,
    pub spurious: u64,
    pub freelist_after: String,
    pub stuck_shape: String,
}

fn op_begin(me: usize, kind: &'static str, index: usize) {
    let mut c = lock();
    c.op[me] = OpCtx { kind, index, events: 0 };
}

/// Global integrity check of every live range (sound because execution is serialised).
fn check_intact(c: &mut Core, who: usize, when: &str, cursor: Option<u32>) {
    c.intact_checks += 1;
    let base = c.base;
    // every live range lies below the bump cursor (raw read of the header word, no hook)
    if let Some(cur) = cursor {
        let mut above: Option<LiveRange> = None;
        for l in c.live.iter() {
            if l.cap > 0 && l.off + l.cap > cur {
                above = Some(l.clone());
                break;
            }
        }
        if let Some(l) = above {
            let msg = format!("live range #{} [{},+{}) of T{} lies above the cursor allocated()={} (noticed by T{} {}): the next fresh allocation will overlap it", l.hid, l.off, l.cap, l.owner, cur, who, when);
            c.viol(&["C02"], "live-range-above-cursor".into(), msg);
            let hid = l.hid;
            c.live.retain(|x| x.hid != hid);
        }
    }
    let mut bad: Option<(LiveRange, usize, u8)> = None;
    for l in c.live.iter() {
        if l.cap == 0 || l.expected.is_empty() {
            continue;
        }
        let m = unsafe { std::slice::from_raw_parts((base + l.off as usize) as *const u8, l.cap as usize) };
        if m != &l.expected[..] {
            let p = m.iter().zip(l.expected.iter()).position(|(a, b)| a != b).unwrap();
            bad = Some((l.clone(), p, m[p]));
            break;
        }
    }
    if let Some((l, p, got)) = bad {
        // root cause: the last event in the ring that wrote into the damaged range
        let cause = c.ring.iter().rev().find(|s| s.contains("wrote=true") && s.contains("arena+")).cloned().unwrap_or_default();
        let victim = format!("{}{}", match l.kind { HKind::Bytes => "bytes", HKind::Aligned(_) => "aligned", HKind::Typed(_) => "typed" }, if l.recycled { "-recycled" } else { "-fresh" });
        let msg = format!("live range #{} [{},+{}) of T{} ({:?}): byte {} reads {:#04x}, owner wrote {:#04x}; noticed by T{} {}; last arena write in trace: {}", l.hid, l.off, l.cap, l.owner, l.kind, p, got, l.expected[p], who, when, cause);
        c.viol(&["C02"], format!("live-bytes-changed:{}", victim), msg);
        // do not report the same damage again
        let hid = l.hid;
        for x in c.live.iter_mut() {
            if x.hid == hid {
                x.expected.clear();
            }
        }
    }
}

fn register_alloc(me: usize, hid: u64, off: u32, cap: u32, boff: u32, kind: HKind, expected: Vec<u8>) {
    let mut c = lock();
    let _ = boff;
    let recycled = cap > 0 && (off..off + cap).any(|b| (b as usize) < c.released_by.len() && c.released_by[b as usize].0 != 0);
    let d = c.data_offset as u32;
    let capa = c.cap as u32;
    if cap > 0 {
        if off < d || off as u64 + cap as u64 > capa as u64 {
            c.viol(&["C02"], "handle-outside-data-area".into(), format!("T{} got [{},+{}) outside the data area [{}, {})", me, off, cap, d, capa));
        }
        let mut ov: Option<LiveRange> = None;
        for l in c.live.iter() {
            if l.cap > 0 && off < l.off + l.cap && l.off < off + cap {
                ov = Some(l.clone());
                break;
            }
        }
        if let Some(l) = ov {
            let msg = format!("T{} was handed [{},+{}) while #{} [{},+{}) of T{} is live", me, off, cap, l.hid, l.off, l.cap, l.owner);
            c.viol(&["C02"], "overlap".into(), msg);
        }
        hb_check_range(&mut c, me, off, cap, "hand-out");
        // from now on the bytes belong to `me`
        for b in off..off + cap {
            if let Some(x) = c.released_by.get_mut(b as usize) {
                *x = (0, 0);
            }
        }
    }
    c.live.push(LiveRange { owner: me, hid, off, cap, kind, recycled, expected });
}

fn unregister(me: usize, hid: u64, releasing: bool) {
    let mut c = lock();
    if let Some(i) = c.live.iter().position(|l| l.hid == hid) {
        let l = c.live.remove(i);
        if releasing {
            let ep = c.vc[me].0[me];
            for b in l.off..l.off + l.cap {
                if let Some(x) = c.released_by.get_mut(b as usize) {
                    *x = (me as u8 + 1, ep);
                }
            }
        }
    }
}

fn pat(hid: u64, gen: u32, n: usize) -> Vec<u8> {
    crate::seq::pattern(hid, gen, n)
}

#[allow(clippy::too_many_arguments)]
fn worker(me: usize, arena: sync::Arena, prog: Vec<POp>, hid_base: u64) {
    TID.with(|t| t.set(me));
    let s = sched();
    // wait for the token
    {
        let mut c = lock();
        c.started[me] = true;
        while c.current != me && !c.abort {
            c = match s.cvs[me].wait(c) {
                Ok(g) => g,
                Err(p) => p.into_inner(),
            };
        }
        if c.abort {
            std::mem::forget(arena);
            return;
        }
    }
    let arena_box = Box::new(arena);
    let a: &'static sync::Arena = unsafe { &*(&*arena_box as *const sync::Arena) };
    let mut slots = Slots((0..4).map(|_| Slot { h: None, hid: 0, off: 0, cap: 0, gen: 0, owned: false }).collect(), vec![]);
    let mut next_hid = hid_base;
    let base = a.raw_ptr() as usize;
    for (i, op) in prog.iter().enumerate() {
        op_begin(me, op.name(), i);
        lock().refs_busy[me] = !matches!(op, POp::Fill { .. } | POp::Send { .. } | POp::Recv { .. } | POp::DiscardFreelist | POp::Leak { .. });
        yield_point(me, None);
        {
            let cur = with_monitor(|| a.allocated() as u32);
            let mut c = lock();
            check_intact(&mut c, me, "before its operation", Some(cur));
        }
        match op {
            POp::Alloc { slot, .. } if slots.0[*slot].h.is_some() => {
                // the slot is still occupied (a Send was not possible / a Recv filled it): skip
            }
            POp::Alloc { slot, req, ty, owned } => {
                let r = alloc_any_send(a, next_hid, *req, *ty, *owned);
                if let Ok(mut h) = r {
                    let (off, cap, boff) = (h.offset() as u32, h.capacity() as u32, h.buffer_offset() as u32);
                    let hid = next_hid;
                    next_hid += 1;
                    let kind = match req {
                        Req::Bytes(_) => HKind::Bytes,
                        Req::Aligned { .. } => HKind::Aligned(*ty),
                        Req::Typed { .. } => HKind::Typed(*ty),
                    };
                    // the owner's first access: read (zero check for bytes) then write its pattern
                    let mut zero_ok = true;
                    if cap > 0 && matches!(req, Req::Bytes(_)) {
                        let m = unsafe { std::slice::from_raw_parts((base + off as usize) as *const u8, cap as usize) };
                        zero_ok = m.iter().all(|b| *b == 0);
                        let mut c = lock();
                        c.c08_checks += 1;
                        if off != boff {
                            c.c08_recycled_checks += 1;
                        }
                    }
                    // C03 under concurrency: requested capacity and alignment
                    {
                        let (need_exact, need_min, align, tsize) = match req {
                            Req::Bytes(n) => (Some(*n as u64), *n as u64, 1u32, 0u32),
                            Req::Aligned { size, align, extra } => (None, *size as u64 + *extra as u64, *align, *size),
                            Req::Typed { size, align } => (Some(*size as u64), *size as u64, *align, *size),
                        };
                        let mut c = lock();
                        c.c03_checks += 1;
                        if need_exact.map_or(false, |x| x != cap as u64) || (cap as u64) < need_min || (tsize > 0 && align > 1 && off % align != 0) {
                            let msg = format!("T{} {:?} returned [{},+{}) (buffer offset {}): needs {} bytes aligned to {}", me, req, off, cap, boff, need_min, align);
                            c.viol(&["C03"], "capacity-or-alignment-concurrent".into(), msg);
                        }
                    }
                    let data = pat(hid, 1, cap as usize);
                    register_alloc(me, hid, off, cap, boff, kind, data.clone());
                    if !zero_ok {
                        lock().viol(&["C08"], "not-zeroed-concurrent".into(), format!("T{} alloc_bytes [{},+{}) not zero-filled", me, off, cap));
                    }
                    h.write(&data, false);
                    if *owned && (cap > 0 || matches!(req, Req::Typed { .. })) {
                        lock().holders += 1;
                    }
                    slots.0[*slot] = Slot { h: Some(h), hid, off, cap, gen: 1, owned: *owned && (cap > 0 || matches!(req, Req::Typed { .. })) };
                }
            }
            POp::Fill { slot } => {
                let s = &mut slots.0[*slot];
                if let Some(h) = s.h.as_mut() {
                    s.gen += 1;
                    let data = pat(s.hid, s.gen, s.cap as usize);
                    {
                        let mut c = lock();
                        if let Some(l) = c.live.iter_mut().find(|l| l.hid == s.hid) {
                            l.expected = data.clone();
                        }
                    }
                    h.write(&data, false);
                }
            }
            POp::Drop { slot } => {
                if let Some(h) = slots.0[*slot].h.take() {
                    unregister(me, slots.0[*slot].hid, true);
                    drop(h);
                    if slots.0[*slot].owned {
                        lock().holders -= 1;
                    }
                }
            }
            POp::DetachDrop { slot } => {
                if let Some(mut h) = slots.0[*slot].h.take() {
                    // stays live for ever (ownerless): keep it registered
                    h.detach();
                    drop(h);
                    if slots.0[*slot].owned {
                        lock().holders -= 1;
                    }
                }
            }
            POp::Leak { slot } => {
                if let Some(h) = slots.0[*slot].h.take() {
                    std::mem::forget(h);
                }
            }
            POp::CloneArena => {
                slots.1.push(a.clone());
                lock().holders += 1;
            }
            POp::DropClone => {
                if let Some(c) = slots.1.pop() {
                    drop(c);
                    lock().holders -= 1;
                }
            }
            POp::DiscardFreelist => {
                let _ = a.discard_freelist();
            }
            POp::Send { slot } => {
                let sl = &mut slots.0[*slot];
                // only owned handles may outlive the sender's arena value
                if !sl.owned {
                    // nothing
                } else if let Some(h) = sl.h.take() {
                    let mut mb = MAILBOX.lock().unwrap();
                    if mb.is_none() {
                        let mut c = lock();
                        let v = c.vc[me].clone();
                        c.mailbox_vc = Some(v);
                        *mb = Some((SendHandle(h), sl.hid, sl.off, sl.cap, sl.gen));
                    } else {
                        drop(mb);
                        sl.h = Some(h);
                    }
                }
            }
            POp::Recv { slot } => {
                let mut mb = MAILBOX.lock().unwrap();
                if slots.0[*slot].h.is_none() {
                    if let Some((h, hid, off, cap, gen)) = mb.take() {
                        let mut c = lock();
                        if let Some(v) = c.mailbox_vc.take() {
                            c.vc[me].join(&v);
                        }
                        if let Some(l) = c.live.iter_mut().find(|l| l.hid == hid) {
                            l.owner = me;
                        }
                        drop(c);
                        let h: Box<dyn Handle + Send> = unsafe { std::mem::transmute::<Box<dyn Handle>, Box<dyn Handle + Send>>(h.0) };
                        slots.0[*slot] = Slot { h: Some(h), hid, off, cap, gen, owned: true };
                    }
                }
            }
        }
        let (refs, cur) = with_monitor(|| (a.refs(), a.allocated() as u32));
        let mut c = lock();
        let ep = c.vc[me].0[me];
        c.last_access[me] = ep;
        check_intact(&mut c, me, "after its operation", Some(cur));
        // M-refs (C13): refs() == live arena values + owned handles (serialised, so exact)
        c.refs_busy[me] = false;
        if c.refs_busy.iter().any(|b| *b) {
            continue;
        }
        c.refs_checks += 1;
        if refs as i64 != c.holders {
            let msg = format!("refs()={} but {} arena values and owned handles are alive (after T{} {})", refs, c.holders, me, op.name());
            c.viol(&["C13"], "refs-mismatch-concurrent".into(), msg);
            c.holders = refs as i64;
        }
    }
    // end of program: drop what is left (owned or borrowed), then the thread's arena value
    op_begin(me, "final_drops", prog.len());
    lock().refs_busy[me] = true;
    for sl in slots.0.iter_mut() {
        if let Some(h) = sl.h.take() {
            unregister(me, sl.hid, true);
            drop(h);
            if sl.owned {
                lock().holders -= 1;
            }
        }
    }
    while let Some(cl) = slots.1.pop() {
        drop(cl);
        lock().holders -= 1;
    }
    {
        let mut c = lock();
        let ep = c.vc[me].0[me];
        c.last_access[me] = ep;
    }
    op_begin(me, "drop_arena", prog.len() + 1);
    yield_point(me, None);
    {
        let mut c = lock();
        c.last_decrement_by = None;
    }
    drop(arena_box);
    lock().holders -= 1;
    finish_thread(me);
}

/// After the thread's own arena value is gone: if it was the last one, the backing store has just been freed.
fn finish_thread(me: usize) {
    let s = sched();
    let mut c = lock();
    if c.last_decrement_by == Some(me) {
        // C12: the free must be ordered after every other thread's last access
        c.final_free_checks += 1;
        for u in 0..c.n {
            if u != me && c.vc[me].0[u] < c.last_access[u] {
                let msg = format!("T{} freed the backing store but has only synchronised with epoch {} of T{} whose last access was at epoch {}", me, c.vc[me].0[u], u, c.last_access[u]);
                c.viol(&["C12"], "missing-happens-before:teardown".into(), msg);
                break;
            }
        }
    }
    c.finished[me] = true;
    c.refs_busy[me] = false;
    let next = c.pick(me);
    if next != me && c.runnable(next) {
        c.current = next;
        s.cvs[next].notify_all();
    } else {
        c.current = MAIN;
        s.cvs[MAIN].notify_all();
    }
}

fn alloc_any_send(a: &'static sync::Arena, id: u64, req: Req, ty: u8, owned: bool) -> Result<Box<dyn Handle + Send>, rarena_allocator::Error> {
    // the erased handles only contain &'static Arena / Arena (both Send + Sync) and plain data
    crate::runner::alloc_any_pub(a, id, req, ty, owned).map(|h| unsafe { std::mem::transmute::<Box<dyn Handle>, Box<dyn Handle + Send>>(h) })
}

pub fn run_once(rc: &RunCfg, replay: Option<Vec<u8>>) -> RunResult {
    install_hooks();
    let n = rc.threads + 1;
    let prefix = if rc.unify { 32 } else { 1 };
    let cap = prefix + rc.cap_room;
    let opts = rarena_allocator::Options::new()
        .with_capacity(cap)
        .with_unify(rc.unify)
        .with_freelist(rc.freelist.to())
        .with_minimum_segment_size(rc.min_seg)
        .with_maximum_retries(rc.retries);
    let arena: sync::Arena = opts.alloc().expect("arena");
    let base = arena.raw_ptr() as usize;
    let watch_slot = crate::watch::watch(base);
    {
        let mut c = lock();
        *c = Core::empty();
        c.active = true;
        c.n = n;
        c.current = MAIN;
        c.finished = vec![false; n];
        c.started = vec![false; n];
        c.rng = Rng::derive(rc.seed, rc.run, 0x5CED);
        c.strategy = rc.strategy.clone();
        c.replay = replay;
        c.since_write = vec![0; n];
        c.spinning = vec![false; n];
        c.k_spin = 300;
        c.b_budget = (rc.retries as u64 + 1) * (cap as u64 / 8 + 2) * 8;
        c.op = vec![OpCtx::default(); n];
        c.spurious_pct = rc.spurious_pct;
        c.prio = (0..n).map(|_| 0).collect();
        c.base = base;
        c.cap = cap as usize;
        c.data_offset = arena.data_offset();
        c.vc = (0..n).map(|_| VC::new(n)).collect();
        c.released_by = vec![(0, 0); cap as usize];
        c.last_access = vec![0; n];
        c.family_b = rc.family_b;
        c.cursor_addr = 0;
        c.holders = 1 + rc.threads as i64;
        c.refs_busy = vec![false; n];
        if let Strategy::Pct(d) = rc.strategy {
            let mut r = Rng::derive(rc.seed, rc.run, 0x9C7);
            let mut pr: Vec<u32> = (0..n as u32).map(|i| 10 + i).collect();
            for i in (1..n).rev() {
                let j = r.usize(i + 1);
                pr.swap(i, j);
            }
            c.prio = pr;
            let est = 40 * rc.programs.iter().map(|p| p.len() as u64).sum::<u64>().max(1);
            c.change_points = (0..d).map(|_| r.below(est)).collect();
        }
    }
    // ---- prelude on the main thread: build a free list of `prelude_blocks` segments -----------
    TID.with(|t| t.set(MAIN));
    let a_static: &'static sync::Arena = unsafe { &*(&arena as *const sync::Arena) };
    let mut prng = Rng::derive(rc.seed, rc.run, 0x9E1);
    {
        lock().op[MAIN] = OpCtx { kind: "prelude", index: 0, events: 0 };
        let mut blocks: Vec<(Box<dyn Handle + Send>, u64, u32, u32)> = vec![];
        let mut hid = 1u64;
        for _ in 0..(rc.prelude_blocks * 2) {
            let n = *prng.pick(&[24u32, 32, 40, 56, 72, 17, 33]);
            if let Ok(mut h) = alloc_any_send(a_static, hid, Req::Bytes(n), 0, false) {
                let (off, cp, boff) = (h.offset() as u32, h.capacity() as u32, h.buffer_offset() as u32);
                let data = pat(hid, 1, cp as usize);
                register_alloc(MAIN, hid, off, cp, boff, HKind::Bytes, data.clone());
                h.write(&data, false);
                blocks.push((h, hid, off, cp));
                hid += 1;
            }
        }
        // leave `top_room` bytes of fresh space
        let alloc_now = arena.allocated() as u32;
        let want_cursor = cap.saturating_sub(rc.top_room).max(alloc_now);
        with_monitor(|| unsafe { arena.rewind(rarena_allocator::ArenaPosition::Start(want_cursor)) });
        for (k, (mut h, hid, _, _)) in blocks.into_iter().enumerate() {
            if k % 2 == 0 {
                unregister(MAIN, hid, true);
                drop(h);
            } else {
                h.detach();
                drop(h); // stays live (ownerless)
            }
        }
    }
    // spawn edge: workers start with main's clock
    {
        let mut c = lock();
        let m = c.vc[MAIN].clone();
        for t in 1..n {
            c.vc[t].join(&m);
        }
        let ep = c.vc[MAIN].0[MAIN];
        c.last_access[MAIN] = ep;
    }
    *MAILBOX.lock().unwrap() = None;
    let mut ths = vec![];
    for t in 1..n {
        let a = arena.clone();
        let prog = rc.programs[t - 1].clone();
        let hb = 1000 * t as u64;
        ths.push(std::thread::spawn(move || {
            let r = std::panic::catch_unwind(std::panic::AssertUnwindSafe(|| worker(t, a, prog, hb)));
            match r {
                Ok(()) => None,
                Err(p) => {
                    if p.downcast_ref::<AbortRun>().is_some() {
                        None
                    } else {
                        // a genuine panic (arena or harness): abandon the run
                        let (loc, msg) = crate::seq::LAST_PANIC.with(|p| p.borrow().clone());
                        let s = sched();
                        let mut c = lock();
                        c.abort = true;
                        c.finished[t] = true;
                        c.current = MAIN;
                        for cv in s.cvs.iter() {
                            cv.notify_all();
                        }
                        Some(format!("{} | {}", loc, msg))
                    }
                }
            }
        }));
    }
    // wait until all workers have registered, then hand the token to the first
    let s = sched();
    let mut arena_opt = Some(arena);
    {
        let mut c = lock();
        loop {
            if (1..n).all(|t| c.started[t]) {
                break;
            }
            drop(c);
            std::thread::yield_now();
            c = lock();
        }
        if rc.main_drops_first {
            // the creator's value goes first: the last holders are workers, dropped under the scheduler
            drop(c);
            lock().op[MAIN] = OpCtx { kind: "drop_arena", index: 0, events: 0 };
            if let Some(a) = arena_opt.take() {
                drop(a);
            }
            c = lock();
            c.holders -= 1;
        }
        let first = c.pick(MAIN);
        c.current = if first == MAIN { 1 } else { first };
        let cur = c.current;
        s.cvs[cur].notify_all();
        // the main thread drops its own arena value while the workers run? no: keep it until they are done,
        // then drop it last or first depending on the seed (see below)
        while !(c.current == MAIN && (1..n).all(|t| c.finished[t])) && !c.abort {
            c = match s.cvs[MAIN].wait(c) {
                Ok(g) => g,
                Err(p) => p.into_inner(),
            };
        }
    }
    let mut arena_panic = None;
    for th in ths {
        if let Ok(Some(p)) = th.join() {
            arena_panic = Some(p);
        }
    }
    let (aborted, hang) = {
        let c = lock();
        (c.abort, c.hang)
    };
    let mut freelist_after = String::new();
    let mut stuck_nodes: Vec<usize> = vec![];
    if aborted {
        // leak everything; the arena memory stays valid for the witness
        if let Some(arena) = arena_opt.take() {
            let snap = arena.__verif_freelist(64);
            stuck_nodes = snap.nodes.iter().filter(|n| n.1 == 0).map(|n| base + n.0 as usize).collect();
            freelist_after = format!("{:?}", snap);
            std::mem::forget(arena);
        }
        if let Some(x) = MAILBOX.lock().unwrap().take() {
            std::mem::forget(x);
        }
    } else if arena_opt.is_none() {
        // main dropped its value first: the workers were the last holders
        let mb = MAILBOX.lock().unwrap().take();
        if let Some((h, hid, ..)) = mb {
            unregister(MAIN, hid, true);
            drop(h.0);
            lock().holders -= 1;
        }
        let mut c = lock();
        if let Some(ws) = watch_slot {
            let freed = crate::watch::freed(ws);
            c.refs_checks += 1;
            if c.holders == 0 && freed != 1 {
                let msg = format!("every arena value and owned handle has been dropped (the last ones by worker threads) but the Vec backing block was freed {} times", freed);
                c.viol(&["C13"], if freed == 0 { "backing-never-freed".into() } else { "backing-freed-twice".into() }, msg);
            } else if c.holders > 0 && freed != 0 {
                let msg = format!("{} owned handles are still alive (leaked by the program) but the Vec backing block was freed {} times", c.holders, freed);
                c.viol(&["C13", "C12"], "backing-freed-early".into(), msg);
            }
        }
    } else {
        let arena = arena_opt.take().unwrap();
        // quiescent: structural check of the free list, then drop the last arena value on main
        let snap = arena.__verif_freelist(4096);
        {
            let cur = with_monitor(|| arena.allocated() as u32);
            let mut c = lock();
            check_intact(&mut c, MAIN, "at the end of the run", Some(cur));
            if !snap.complete {
                c.viol(&["C07", "C10"], "freelist-cycle-at-quiescence".into(), format!("free list walk did not terminate: {:?}", &snap.nodes[..snap.nodes.len().min(6)]));
            }
            if snap.nodes.iter().any(|n| n.1 == 0) {
                c.viol(&["C07"], "removed-node-still-linked".into(), format!("a node marked as removed is still linked at quiescence: {:?}", snap.nodes));
            }
            let live: Vec<LiveRange> = c.live.clone();
            for nd in snap.nodes.iter() {
                for l in live.iter() {
                    if l.cap > 0 && nd.0 < l.off + l.cap && l.off < nd.0 + 8 + nd.1 {
                        c.viol(&["C02"], "segment-overlaps-live-at-quiescence".into(), format!("segment {}+{} overlaps live #{} [{},+{})", nd.0, nd.1, l.hid, l.off, l.cap));
                    }
                }
            }
        }
        let mb = MAILBOX.lock().unwrap().take();
        if let Some((h, hid, ..)) = mb {
            unregister(MAIN, hid, true);
            drop(h.0);
            lock().holders -= 1;
        }
        lock().last_decrement_by = None;
        lock().op[MAIN] = OpCtx { kind: "drop_arena", index: 0, events: 0 };
        drop(arena);
        let mut c = lock();
        c.holders -= 1;
        // C13: the backing store is released exactly once, when the number of holders reaches zero
        if let Some(ws) = watch_slot {
            let freed = crate::watch::freed(ws);
            c.refs_checks += 1;
            if c.holders == 0 && freed != 1 {
                let msg = format!("every arena value and owned handle has been dropped but the Vec backing block was freed {} times", freed);
                c.viol(&["C13"], if freed == 0 { "backing-never-freed".into() } else { "backing-freed-twice".into() }, msg);
            } else if c.holders > 0 && freed != 0 {
                let msg = format!("{} owned handles are still alive (leaked by the program) but the Vec backing block was freed {} times", c.holders, freed);
                c.viol(&["C13", "C12"], "backing-freed-early".into(), msg);
            }
        }
        if c.last_decrement_by == Some(MAIN) {
            c.final_free_checks += 1;
            for u in 1..c.n {
                if c.vc[MAIN].0[u] < c.last_access[u] {
                    let msg = format!("main freed the backing store but has only synchronised with epoch {} of T{} whose last access was at epoch {}", c.vc[MAIN].0[u], u, c.last_access[u]);
                    c.viol(&["C12"], "missing-happens-before:teardown".into(), msg);
                    break;
                }
            }
        }
    }
    if let Some(ws) = watch_slot {
        crate::watch::unwatch(ws);
    }
    let mut c = lock();
    c.active = false;
    TID.with(|t| t.set(usize::MAX));
    // witness shape of a hang: what happened to the nodes that are marked as removed
    let mut shapes: Vec<String> = c.marks.iter().filter(|(_, v)| v.1 != "restored-or-reinserted").map(|(a, v)| format!("arena+{}:T{}:{}", a - c.base, v.0, v.1)).collect();
    shapes.sort();
    let mut polled_unlinked = false;
    if aborted {
        // nodes marked as removed that are still reachable from the sentinel
        stuck_nodes = c.hang_list.iter().filter(|n| n.1 == 0).map(|n| c.base + n.0 as usize).collect();
        if freelist_after.is_empty() || true {
            freelist_after = format!("{:?}", c.hang_list);
        }
        // nodes the spinning threads poll although they are no longer in the list
        for t in 1..c.n {
            if !c.finished[t] {
                if let Some(Some(a)) = c.last_removed_seen.get(t) {
                    if !stuck_nodes.contains(a) {
                        polled_unlinked = true;
                    }
                }
            }
        }
    }
    let stuck_states: Vec<&'static str> = stuck_nodes.iter().filter_map(|a| c.marks.get(a).map(|v| v.1)).collect();
    let cyclic = {
        let mut seen = std::collections::HashSet::new();
        c.hang_list.iter().any(|n| !seen.insert(n.0)) || c.hang_list.len() >= 64
    };
    // root cause visible in the trace: a node whose unlink CAS went to a predecessor that was not in
    // the list stays linked (marked); it is then either polled for ever or, once its memory is
    // released again, linked a second time (a cycle). Only counts when that very node is what the
    // list is stuck on.
    let dup_nodes: Vec<usize> = {
        let mut seen = std::collections::HashSet::new();
        c.hang_list.iter().filter(|n| !seen.insert(n.0)).map(|n| c.base + n.0 as usize).collect()
    };
    let stale_cause = c.stale_unlinks.iter().any(|(_, _, node)| stuck_nodes.contains(node) || dup_nodes.contains(node));
    if !c.stale_unlinks.is_empty() {
        shapes.push(format!("stale-unlinks:{:?}", c.stale_unlinks.iter().map(|(t, p, n)| (*t, p - c.base, n - c.base)).collect::<Vec<_>>()));
    }
    // second root cause visible in the trace: a thread marked a node that was not in the list (popped, being
    // re-inserted), its unlink CAS succeeded all the same and wrote a stale successor into the list: that
    // successor (an allocated, marked node) is what the list is stuck on, or is linked twice
    let stale_mark_cause = c.stale_mark_unlinks.iter().any(|(_, _, _, next)| {
        let a = c.base + *next as usize;
        stuck_nodes.contains(&a) || dup_nodes.contains(&a)
    });
    if !c.stale_mark_unlinks.is_empty() {
        shapes.push(format!("unlinks-after-marking-an-unlinked-node:{:?}", c.stale_mark_unlinks.iter().map(|(t, p, n, x)| (*t, p.wrapping_sub(c.base), n - c.base, *x)).collect::<Vec<_>>()));
    }
    let stuck_shape = if stale_cause {
        "unlinked-from-stale-predecessor"
    } else if stale_mark_cause {
        "relinked-by-unlink-after-marking-an-unlinked-node"
    } else if cyclic {
        "free-list-cycle"
    } else if stuck_states.iter().any(|v| *v == "unlink-failed" || *v == "marked") {
        "mark-not-undone-after-failed-unlink"
    } else if stuck_states.iter().any(|v| *v == "unlink-succeeded") {
        "unlink-succeeded-but-still-linked"
    } else if stuck_states.is_empty() && polled_unlinked {
        "polling-a-node-that-is-no-longer-linked"
    } else if stuck_states.is_empty() {
        "no-marked-node"
    } else {
        "other"
    }
    .to_string()
        + &format!(" [{}]", shapes.join(", "));
    RunResult {
        events: c.events,
        steps: c.steps,
        preemptions: c.preemptions,
        sched_hash: c.sched_hash,
        hang,
        viols: c.viols.clone(),
        ring: c.ring.clone(),
        windows: c.windows.clone(),
        handover_checks: c.handover_checks,
        trace_rule_checks: c.trace_rule_checks,
        intact_checks: c.intact_checks,
        final_free_checks: c.final_free_checks,
        refs_checks: c.refs_checks,
        c03_checks: c.c03_checks,
        c08_checks: c.c08_checks,
        c08_recycled_checks: c.c08_recycled_checks,
        max_since_write: c.max_since_write_seen,
        b_budget: c.b_budget,
        op_events: vec![],
        arena_panic,
        schedule: c.schedule.clone(),
        slow_path_ops: c.windows.keys().filter(|k| k.contains("alloc")).count() as u64,
        spurious: c.spurious_injected,
        freelist_after,
        stuck_shape,
    }
}

/// "top race": many threads fight for the last few bytes of fresh space (release-on-top keeps giving them back)
pub fn top_race_cfg(rng: &mut Rng, seed: u64, run: u64) -> RunCfg {
    let threads = 3 + rng.usize(2);
    let mut programs = vec![];
    for _ in 0..threads {
        let mut p = vec![];
        let mut occ = [false; 4];
        for _ in 0..rng.range(20, 50) {
            let free: Vec<usize> = (0..4).filter(|i| !occ[*i]).collect();
            let used: Vec<usize> = (0..4).filter(|i| occ[*i]).collect();
            if (rng.below(100) < 55 || used.is_empty()) && !free.is_empty() {
                let slot = *rng.pick(&free);
                occ[slot] = true;
                p.push(POp::Alloc { slot, req: Req::Bytes(*rng.pick(&[8u32, 8, 16, 24, 9])), ty: 0, owned: rng.chance(1, 6) });
            } else if !used.is_empty() {
                let slot = *rng.pick(&used);
                occ[slot] = false;
                p.push(POp::Drop { slot });
            }
        }
        programs.push(p);
    }
    RunCfg {
        freelist: *rng.pick(&[FL::None, FL::None, FL::Optimistic, FL::Pessimistic]),
        unify: rng.bool(),
        min_seg: 20,
        cap_room: 256,
        retries: 1,
        threads,
        prelude_blocks: 0,
        top_room: *rng.pick(&[16u32, 24, 32, 40, 48]),
        family_b: false,
        programs,
        strategy: match rng.below(8) {
            0 => Strategy::Random(50),
            1 | 2 => Strategy::Random(70),
            3 | 4 => Strategy::Random(85),
            5 | 6 => Strategy::Random(95),
            _ => Strategy::Pct(3),
        },
        spurious_pct: 0,
        seed,
        run,
        main_drops_first: rng.bool(),
    }
}

/// "fresh aligned": everything comes from fresh space; 1- and 3-byte allocations keep changing the
/// residue of the cursor while other threads make aligned / typed allocations (lost CAS + retry paths)
pub fn fresh_aligned_cfg(rng: &mut Rng, seed: u64, run: u64) -> RunCfg {
    let threads = 2 + rng.usize(3);
    let mut programs = vec![];
    for t in 0..threads {
        let mut p = vec![];
        let mut occ = [false; 4];
        for _ in 0..rng.range(14, 36) {
            let free: Vec<usize> = (0..4).filter(|i| !occ[*i]).collect();
            let used: Vec<usize> = (0..4).filter(|i| occ[*i]).collect();
            if (rng.below(100) < 65 || used.is_empty()) && !free.is_empty() {
                let slot = *rng.pick(&free);
                occ[slot] = true;
                let req_ty = if (t + rng.usize(3)) % 2 == 0 {
                    (Req::Bytes(*rng.pick(&[1u32, 1, 3, 5, 2])), 0u8)
                } else if rng.bool() {
                    let ty = *rng.pick(&[8u8, 11, 6, 4, 12]);
                    let ti = ty_info(ty);
                    (Req::Aligned { size: ti.size, align: ti.align, extra: *rng.pick(&[0u32, 1, 3, 8, 13]) }, ty)
                } else {
                    let ty = *rng.pick(&[8u8, 9, 11, 6]);
                    let ti = ty_info(ty);
                    (Req::Typed { size: ti.size, align: ti.align }, ty)
                };
                p.push(POp::Alloc { slot, req: req_ty.0, ty: req_ty.1, owned: rng.chance(1, 5) });
            } else if !used.is_empty() {
                let slot = *rng.pick(&used);
                occ[slot] = false;
                if rng.chance(1, 3) {
                    p.push(POp::DetachDrop { slot });
                } else {
                    p.push(POp::Drop { slot });
                }
            }
        }
        programs.push(p);
    }
    RunCfg {
        freelist: *rng.pick(&[FL::None, FL::Optimistic, FL::Pessimistic]),
        unify: rng.bool(),
        min_seg: 20,
        cap_room: 2048,
        retries: 5,
        threads,
        prelude_blocks: 0,
        top_room: 2048,
        family_b: true,
        programs,
        strategy: match rng.below(6) {
            0 => Strategy::Random(30),
            1 | 2 => Strategy::Random(70),
            3 | 4 => Strategy::Random(85),
            _ => Strategy::Pct(2),
        },
        spurious_pct: if rng.chance(1, 3) { 15 } else { 0 },
        seed,
        run,
        main_drops_first: false,
    }
}

/// "free-list contention": 4 threads keep taking and giving back segments of a few neighbouring sizes,
/// no fresh space, so removals of adjacent nodes, failed unlinks and re-insertions collide all the time
pub fn list_contention_cfg(rng: &mut Rng, seed: u64, run: u64) -> RunCfg {
    let threads = 3 + rng.usize(2);
    let sizes = [16u32, 24, 32, 40, 48];
    let mut programs = vec![];
    for _ in 0..threads {
        let mut p = vec![];
        let mut occ = [false; 4];
        for _ in 0..rng.range(16, 40) {
            let free: Vec<usize> = (0..4).filter(|i| !occ[*i]).collect();
            let used: Vec<usize> = (0..4).filter(|i| occ[*i]).collect();
            let r = rng.below(100);
            if (r < 50 || used.is_empty()) && !free.is_empty() {
                let slot = *rng.pick(&free);
                occ[slot] = true;
                p.push(POp::Alloc { slot, req: Req::Bytes(*rng.pick(&sizes)), ty: 0, owned: false });
            } else if r < 60 && !used.is_empty() {
                p.push(POp::Fill { slot: *rng.pick(&used) });
            } else if !used.is_empty() {
                let slot = *rng.pick(&used);
                occ[slot] = false;
                p.push(POp::Drop { slot });
            }
        }
        programs.push(p);
    }
    // one run in four: discard_freelist races with the takers and givers (inserted afterwards, so that the
    // PRNG stream — and with it every other run — stays as it was)
    if run % 4 == 3 {
        for (t, p) in programs.iter_mut().enumerate() {
            let n = p.len();
            if n >= 6 {
                p.insert(2 * n / 3, POp::DiscardFreelist);
                if t % 2 == 0 {
                    p.insert(n / 3, POp::DiscardFreelist);
                }
            }
        }
    }
    RunCfg {
        freelist: if rng.below(4) == 0 { FL::Optimistic } else { FL::Pessimistic },
        unify: rng.bool(),
        min_seg: 8,
        cap_room: 512,
        retries: 5,
        threads,
        prelude_blocks: 6,
        top_room: 0,
        family_b: false,
        programs,
        strategy: match rng.below(6) {
            0 => Strategy::Random(50),
            1 | 2 => Strategy::Random(70),
            3 | 4 => Strategy::Random(85),
            _ => Strategy::Random(95),
        },
        spurious_pct: 0,
        seed,
        run,
        main_drops_first: false,
    }
}

pub fn sample_run_cfg(rng: &mut Rng, seed: u64, run: u64, prop: &str, family_b: bool) -> RunCfg {
    let freelist = match run % 5 {
        0 | 1 => FL::Optimistic,
        2 | 3 => FL::Pessimistic,
        _ => FL::None,
    };
    let threads = 2 + (rng.below(10) >= 4) as usize + (rng.below(10) >= 8) as usize;
    let sizes_all = [8u32, 16, 24, 40, 9, 33, 64, 1, 0];
    let k = 3 + rng.usize(3);
    let mut sizes = vec![];
    for _ in 0..k {
        sizes.push(*rng.pick(&sizes_all));
    }
    let ops = rng.range(10, if prop == "C07" { 40 } else { 60 }) as usize;
    let teardown_heavy = prop == "C13" || (prop == "C12" && rng.chance(1, 3));
    let programs = gen_programs(rng, threads, ops, family_b, &sizes, teardown_heavy);
    let strategy = match rng.below(12) {
        0..=1 => Strategy::Random(5),
        2..=4 => Strategy::Random(30),
        5..=6 => Strategy::Random(70),
        7 => Strategy::Pct(1),
        8 => Strategy::Pct(2),
        9 => Strategy::Pct(3),
        10 => Strategy::Delay(8, 30),
        _ => Strategy::Delay(15, 60),
    };
    RunCfg {
        freelist,
        unify: rng.bool(),
        min_seg: {
            let m = *rng.pick(&[1u32, 8, 20]);
            if run % 8 == 5 {
                0
            } else {
                m
            }
        },
        cap_room: *rng.pick(&[256u32, 384, 512, 768, 1024]),
        retries: *rng.pick(&[1u8, 5]),
        threads,
        prelude_blocks: rng.usize(7),
        top_room: *rng.pick(&[0u32, 0, 8, 24, 64]),
        family_b,
        programs,
        strategy,
        spurious_pct: if rng.chance(1, 4) { 10 } else { 0 },
        seed,
        run,
        main_drops_first: rng.chance(1, 2),
    }
}

fn report_run(out: &mut Out, prop: &str, rc: &RunCfg, r: &RunResult, extra_args: &str) {
    out.inc("runs");
    out.add("events", r.events);
    out.add("preemptions", r.preemptions);
    out.add("handover_checks", r.handover_checks);
    out.add("trace_rule_checks", r.trace_rule_checks);
    out.add("intact_checks", r.intact_checks);
    out.add("final_free_checks", r.final_free_checks);
    out.add("refs_checks", r.refs_checks);
    out.add("c03_concurrent_checks", r.c03_checks);
    out.add("c08_concurrent_zero_checks", r.c08_checks);
    out.add("c08_concurrent_zero_checks_on_recycled_segments", r.c08_recycled_checks);
    out.add("spurious_cas_failures_injected", r.spurious);
    out.maxv("max_accesses_without_progress_in_a_completed_call", r.max_since_write);
    out.maxv("progress_budget_B", r.b_budget);
    out.inc(&format!("family.{}", if rc.family_b && rc.top_room == 2048 { "F" } else if rc.family_b { "B" } else if rc.prelude_blocks == 0 && rc.cap_room == 256 && rc.min_seg == 20 && rc.retries == 1 { "T" } else if rc.prelude_blocks == 6 && rc.cap_room == 512 && rc.min_seg == 8 && rc.top_room == 0 && rc.spurious_pct == 0 && !rc.main_drops_first && rc.retries == 5 { "P" } else { "A" }));
    out.inc(&format!("freelist.{}", rc.freelist.name()));
    out.inc(&format!("threads.{}", rc.threads));
    out.inc(&format!("strategy.{}", match rc.strategy { Strategy::Random(p) => format!("random{}", p), Strategy::Pct(d) => format!("pct{}", d), Strategy::Pause { .. } => "pause".into(), Strategy::Delay(q, m) => format!("delay{}-{}", q, m) }));
    for (k, v) in r.windows.iter() {
        out.add(&format!("window.{}", k), *v);
    }
    let replay = format!("sched --prop {} --seed {} --only {} {}", prop, rc.seed, rc.run, extra_args);
    let ctx = |msg: &str| {
        crate::jobj!("message" => msg, "run_cfg" => rc.to_json(), "last_events" => J::Arr(r.ring.iter().rev().take(ring_cap().max(40)).rev().map(|s| J::Str(s.clone())).collect()),
            "schedule_len" => r.schedule.len(), "schedule_prefix" => J::Arr(r.schedule.iter().take(200).map(|t| J::Int(*t as i128)).collect()), "replay_args" => replay.clone())
    };
    if r.hang {
        out.inc("hang_verdicts");
        let mut d = ctx(&format!("every unfinished thread performed more than B={} atomic accesses since the last successful write in the whole system: the words they poll can no longer change", r.b_budget));
        d.set("free_list_at_hang", r.freelist_after.clone());
        let first = r.stuck_shape.split(' ').next().unwrap_or("").to_string();
        let shape = match first.as_str() {
            "mark-not-undone-after-failed-unlink" | "unlinked-from-stale-predecessor" | "relinked-by-unlink-after-marking-an-unlinked-node" | "unlink-succeeded-but-still-linked" => format!("removed-node-linked:{}", first),
            "polling-a-node-that-is-no-longer-linked" | "free-list-cycle" => first.clone(),
            _ => "other".to_string(),
        };
        d.set("marked_nodes", r.stuck_shape.clone());
        out.viol("C07", &format!("no-progress:{}:{}", rc.freelist.name(), shape), d);
    }
    if let Some(p) = &r.arena_panic {
        if p.contains("rarena-allocator") {
            out.viol(prop, "arena-panic", ctx(&format!("panic inside the arena: {}", p)));
        } else {
            out.inconclusive(&format!("harness panic in run {}: {}", rc.run, p));
            out.inc("harness_panics");
        }
    }
    if !r.viols.is_empty() {
        out.inc(&format!("runs_with_violation.{}", match rc.strategy { Strategy::Random(p) => format!("random{}", p), Strategy::Pct(d) => format!("pct{}", d), Strategy::Pause { .. } => "pause".into(), Strategy::Delay(q, m) => format!("delay{}-{}", q, m) }));
    }
    for v in r.viols.iter() {
        for p in v.props.iter() {
            let mut d = ctx(&v.msg);
            d.set("last_events", J::Arr(v.ring.iter().map(|s| J::Str(s.clone())).collect()));
            out.viol(p, &v.sig, d);
        }
    }
    if r.preemptions > 0 && !r.hang {
        out.hash(r.sched_hash);
    }
}

pub fn child_main(args: &Args) -> i32 {
    let prop = args.str("prop", "C02");
    let seed = args.u64("seed", 1);
    let mut out = Out::new();
    out.viol_cap = 40;
    crate::seq::install_panic_capture();
    let fam = args.str("family", "A");
    let t0 = std::time::Instant::now();
    let budget = args.u64("secs", 3600);
    let idxs: Vec<u64> = if args.has("only") {
        vec![args.u64("only", 0)]
    } else {
        let from = args.u64("from", 0);
        let count = args.u64("count", 100);
        let stride = args.u64("stride", 1);
        (0..count).map(|k| from + k * stride).collect()
    };
    let sweep = args.has("sweep");
    for run in idxs {
        if t0.elapsed().as_secs() >= budget {
            out.inc("stopped_on_time_budget");
            break;
        }
        let mut rng = Rng::derive(seed, run, if fam == "B" { 0xB } else { 0xA });
        let mut rc = if fam == "T" { top_race_cfg(&mut rng, seed, run) } else if fam == "P" { list_contention_cfg(&mut rng, seed, run) } else if fam == "F" { fresh_aligned_cfg(&mut rng, seed, run) } else { sample_run_cfg(&mut rng, seed, run, &prop, fam == "B") };
        if let Some(p) = args.kv.get("pause") {
            let v: Vec<usize> = p.split(',').filter_map(|x| x.parse().ok()).collect();
            if v.len() == 3 {
                rc.strategy = Strategy::Pause { t: v[0], op: v[1], k: v[2] };
            }
        }
        out.at(&format!("sched --prop {} --seed {} --family {} --only {}", prop, seed, fam, run));
        let r = run_once(&rc, None);
        report_run(&mut out, &prop, &rc, &r, &format!("--family {}", fam));
        if run % 50 == 0 {
            out.sample(crate::jobj!("run" => run, "cfg" => rc.to_json(), "events" => r.events, "preemptions" => r.preemptions, "schedule_prefix" => J::Arr(r.schedule.iter().take(60).map(|t| J::Int(*t as i128)).collect())));
        }
        if sweep && !r.hang && r.viols.is_empty() {
            // window sweep: pause each thread at each atomic event index of some of its operations
            let mut sr = Rng::derive(seed, run, 0x5EE9);
            for _ in 0..args.u64("sweep-points", 12) {
                let t = 1 + sr.usize(rc.threads);
                let op = sr.usize(rc.programs[t - 1].len().max(1));
                let k = sr.usize(12);
                let mut rc2 = rc.clone();
                rc2.strategy = Strategy::Pause { t, op, k };
                let r2 = run_once(&rc2, None);
                report_run(&mut out, &prop, &rc2, &r2, &format!("--family {} --pause {},{},{}", fam, t, op, k));
                out.inc("window_sweep_runs");
            }
        }
    }
    out.emit();
    0
}
