// included twice (BytesRefMut / BytesMut) from bufs.rs
#[allow(clippy::too_many_arguments)]
pub fn matrix<A: VArena>(ctx: &mut Ctx, arena: &A, b: &mut H<A>, rng: &mut Rng, thin: bool) {
    let off = Buffer::offset(b);
    let cap = Buffer::capacity(b);
    let base = arena.raw_ptr() as usize;
    let acap = arena.capacity();
    let salt = mix(ctx.seed, cap as u64);
    // ---- helpers -------------------------------------------------------------------
    // establish fill level + background; returns the arena image
    macro_rules! prep {
        ($len:expr) => {{
            b.set_len($len);
            if cap > 0 {
                let p = arena.raw_mut_ptr();
                for i in 0..cap {
                    unsafe { *p.add(off + i) = bg(i, salt) };
                }
            }
            arena.memory().to_vec()
        }};
    }
    // compare image outside the buffer and, inside, against `expect` (len == cap)
    macro_rules! check_mem {
        ($op:expr, $len:expr, $before:expr, $expect_inside:expr) => {{
            let after = arena.memory();
            let mut ok = true;
            for i in 0..acap {
                let inside = i >= off && i < off + cap;
                if !inside && after[i] != $before[i] {
                    ctx.viol($op, "wrote-outside-buffer", format!("arena byte {} (buffer is [{},{})) changed {:#04x} -> {:#04x}", i, off, off + cap, $before[i], after[i]), $len);
                    ok = false;
                    break;
                }
            }
            if ok {
                let exp: &[u8] = $expect_inside;
                if &after[off..off + cap] != exp {
                    let p = (0..cap).find(|i| after[off + i] != exp[*i]).unwrap();
                    ctx.viol($op, "wrong-bytes-inside", format!("buffer byte {} is {:#04x}, expected {:#04x}", p, after[off + p], exp[p]), $len);
                    ok = false;
                }
            }
            ok
        }};
    }
    let lens: Vec<usize> = if thin { vec![0, cap / 2, cap.saturating_sub(1), cap] } else { (0..=cap).collect() };
    // ---- fixed width integers --------------------------------------------------------
    macro_rules! int_case {
        ($ty:ident, $put:ident, $putu:ident, $write:ident, $get:ident, $conv:ident, $name:expr) => {{
            const SZ: usize = core::mem::size_of::<$ty>();
            for &len in lens.iter() {
                let vals: [$ty; 5] = [0 as $ty, 1 as $ty, <$ty>::MAX, <$ty>::MIN, {
                    let mut x: u128 = 0;
                    for k in 0..16u128 {
                        x = (x << 8) | (k + 1);
                    }
                    (x ^ (rng.next() as u128)) as $ty
                }];
                for (vi, v) in vals.iter().enumerate() {
                    if thin && vi % 2 == 1 {
                        continue;
                    }
                    let v = *v;
                    ctx.out.inc("c14_cases");
                    // put
                    let before = prep!(len);
                    let r = b.$put(v);
                    let mut exp = before[off..off + cap].to_vec();
                    if len + SZ <= cap {
                        exp[len..len + SZ].copy_from_slice(&v.$conv());
                        if r.is_err() || b.len() != len + SZ {
                            ctx.viol(concat!("put_", $name), "refused-or-len", format!("fits (len {} + {} <= {}) but result ok={} len={}", len, SZ, cap, r.is_ok(), b.len()), len);
                            continue;
                        }
                        if !check_mem!(concat!("put_", $name), len, before, &exp) {
                            continue;
                        }
                        // get of the same type and order returns the value and restores len
                        let g = b.$get();
                        match g {
                            Ok(x) if x == v && b.len() == len => {}
                            Ok(x) => {
                                ctx.viol(concat!("get_", $name), "round-trip", format!("put {:?} then get returned {:?}, len {} (expected {})", v, x, b.len(), len), len);
                                continue;
                            }
                            Err(_) => {
                                ctx.viol(concat!("get_", $name), "round-trip", format!("get failed after a successful put of {:?}", v), len);
                                continue;
                            }
                        }
                        ctx.out.inc("c14_roundtrips");
                        // unchecked put within bounds + write_*
                        let before = prep!(len);
                        unsafe { b.$putu(v) };
                        if b.len() != len + SZ || !check_mem!(concat!("put_", $name, "_unchecked"), len, before, &exp) {
                            if b.len() != len + SZ {
                                ctx.viol(concat!("put_", $name, "_unchecked"), "len", format!("len {} after unchecked put at {}", b.len(), len), len);
                            }
                            continue;
                        }
                        let before = prep!(len);
                        let w = b.$write(v);
                        if w.is_err() || b.len() != len + SZ || !check_mem!(concat!("write_", $name), len, before, &exp) {
                            if w.is_err() || b.len() != len + SZ {
                                ctx.viol(concat!("write_", $name), "refused-or-len", format!("ok={} len={}", w.is_ok(), b.len()), len);
                            }
                            continue;
                        }
                    } else {
                        if r.is_ok() || b.len() != len {
                            ctx.viol(concat!("put_", $name), "accepted-overflow", format!("does not fit (len {} + {} > {}) but ok={} len={}", len, SZ, cap, r.is_ok(), b.len()), len);
                            continue;
                        }
                        if !check_mem!(concat!("put_", $name), len, before, &exp) {
                            continue;
                        }
                        let before = prep!(len);
                        let w = b.$write(v);
                        if w.is_ok() || b.len() != len || !check_mem!(concat!("write_", $name), len, before, &exp) {
                            if w.is_ok() || b.len() != len {
                                ctx.viol(concat!("write_", $name), "accepted-overflow", format!("ok={} len={}", w.is_ok(), b.len()), len);
                            }
                            continue;
                        }
                        ctx.out.inc("c14_refusals");
                    }
                }
            }
        }};
    }
    macro_rules! int_all {
        ($($ty:ident),*) => {$(
            paste_int!($ty, be, to_be_bytes);
            paste_int!($ty, le, to_le_bytes);
            paste_int!($ty, ne, to_ne_bytes);
        )*};
    }
    macro_rules! paste_int {
        (u16, be, $c:ident) => { int_case!(u16, put_u16_be, put_u16_be_unchecked, write_u16_be, get_u16_be, $c, "u16_be") };
        (u16, le, $c:ident) => { int_case!(u16, put_u16_le, put_u16_le_unchecked, write_u16_le, get_u16_le, $c, "u16_le") };
        (u16, ne, $c:ident) => { int_case!(u16, put_u16_ne, put_u16_ne_unchecked, write_u16_ne, get_u16_ne, $c, "u16_ne") };
        (u32, be, $c:ident) => { int_case!(u32, put_u32_be, put_u32_be_unchecked, write_u32_be, get_u32_be, $c, "u32_be") };
        (u32, le, $c:ident) => { int_case!(u32, put_u32_le, put_u32_le_unchecked, write_u32_le, get_u32_le, $c, "u32_le") };
        (u32, ne, $c:ident) => { int_case!(u32, put_u32_ne, put_u32_ne_unchecked, write_u32_ne, get_u32_ne, $c, "u32_ne") };
        (u64, be, $c:ident) => { int_case!(u64, put_u64_be, put_u64_be_unchecked, write_u64_be, get_u64_be, $c, "u64_be") };
        (u64, le, $c:ident) => { int_case!(u64, put_u64_le, put_u64_le_unchecked, write_u64_le, get_u64_le, $c, "u64_le") };
        (u64, ne, $c:ident) => { int_case!(u64, put_u64_ne, put_u64_ne_unchecked, write_u64_ne, get_u64_ne, $c, "u64_ne") };
        (usize, be, $c:ident) => { int_case!(usize, put_usize_be, put_usize_be_unchecked, write_usize_be, get_usize_be, $c, "usize_be") };
        (usize, le, $c:ident) => { int_case!(usize, put_usize_le, put_usize_le_unchecked, write_usize_le, get_usize_le, $c, "usize_le") };
        (usize, ne, $c:ident) => { int_case!(usize, put_usize_ne, put_usize_ne_unchecked, write_usize_ne, get_usize_ne, $c, "usize_ne") };
        (u128, be, $c:ident) => { int_case!(u128, put_u128_be, put_u128_be_unchecked, write_u128_be, get_u128_be, $c, "u128_be") };
        (u128, le, $c:ident) => { int_case!(u128, put_u128_le, put_u128_le_unchecked, write_u128_le, get_u128_le, $c, "u128_le") };
        (u128, ne, $c:ident) => { int_case!(u128, put_u128_ne, put_u128_ne_unchecked, write_u128_ne, get_u128_ne, $c, "u128_ne") };
        (i16, be, $c:ident) => { int_case!(i16, put_i16_be, put_i16_be_unchecked, write_i16_be, get_i16_be, $c, "i16_be") };
        (i16, le, $c:ident) => { int_case!(i16, put_i16_le, put_i16_le_unchecked, write_i16_le, get_i16_le, $c, "i16_le") };
        (i16, ne, $c:ident) => { int_case!(i16, put_i16_ne, put_i16_ne_unchecked, write_i16_ne, get_i16_ne, $c, "i16_ne") };
        (i32, be, $c:ident) => { int_case!(i32, put_i32_be, put_i32_be_unchecked, write_i32_be, get_i32_be, $c, "i32_be") };
        (i32, le, $c:ident) => { int_case!(i32, put_i32_le, put_i32_le_unchecked, write_i32_le, get_i32_le, $c, "i32_le") };
        (i32, ne, $c:ident) => { int_case!(i32, put_i32_ne, put_i32_ne_unchecked, write_i32_ne, get_i32_ne, $c, "i32_ne") };
        (i64, be, $c:ident) => { int_case!(i64, put_i64_be, put_i64_be_unchecked, write_i64_be, get_i64_be, $c, "i64_be") };
        (i64, le, $c:ident) => { int_case!(i64, put_i64_le, put_i64_le_unchecked, write_i64_le, get_i64_le, $c, "i64_le") };
        (i64, ne, $c:ident) => { int_case!(i64, put_i64_ne, put_i64_ne_unchecked, write_i64_ne, get_i64_ne, $c, "i64_ne") };
        (isize, be, $c:ident) => { int_case!(isize, put_isize_be, put_isize_be_unchecked, write_isize_be, get_isize_be, $c, "isize_be") };
        (isize, le, $c:ident) => { int_case!(isize, put_isize_le, put_isize_le_unchecked, write_isize_le, get_isize_le, $c, "isize_le") };
        (isize, ne, $c:ident) => { int_case!(isize, put_isize_ne, put_isize_ne_unchecked, write_isize_ne, get_isize_ne, $c, "isize_ne") };
        (i128, be, $c:ident) => { int_case!(i128, put_i128_be, put_i128_be_unchecked, write_i128_be, get_i128_be, $c, "i128_be") };
        (i128, le, $c:ident) => { int_case!(i128, put_i128_le, put_i128_le_unchecked, write_i128_le, get_i128_le, $c, "i128_le") };
        (i128, ne, $c:ident) => { int_case!(i128, put_i128_ne, put_i128_ne_unchecked, write_i128_ne, get_i128_ne, $c, "i128_ne") };
    }
    int_all!(u16, u32, u64, usize, u128, i16, i32, i64, isize, i128);
    // ---- u8 / i8 -----------------------------------------------------------------------
    for &len in lens.iter() {
        for v in [0u8, 1, 0x7f, 0x80, 0xff] {
            ctx.out.inc("c14_cases");
            let before = prep!(len);
            let r = b.put_u8(v);
            let mut exp = before[off..off + cap].to_vec();
            if len + 1 <= cap {
                exp[len] = v;
                if r.is_err() || b.len() != len + 1 {
                    ctx.viol("put_u8", "refused-or-len", format!("ok={} len={}", r.is_ok(), b.len()), len);
                    continue;
                }
                if !check_mem!("put_u8", len, before, &exp) {
                    continue;
                }
                match b.get_u8() {
                    Ok(x) if x == v && b.len() == len => {}
                    other => {
                        ctx.viol("get_u8", "round-trip", format!("put {} got {:?} len {}", v, other.ok(), b.len()), len);
                        continue;
                    }
                }
                let before = prep!(len);
                let r = b.put_i8(v as i8);
                if r.is_err() || !check_mem!("put_i8", len, before, &exp) {
                    continue;
                }
                match b.get_i8() {
                    Ok(x) if x == v as i8 && b.len() == len => {}
                    other => {
                        ctx.viol("get_i8", "round-trip", format!("put {} got {:?} len {}", v as i8, other.ok(), b.len()), len);
                        continue;
                    }
                }
                ctx.out.inc("c14_roundtrips");
            } else {
                if r.is_ok() || b.len() != len {
                    ctx.viol("put_u8", "accepted-overflow", format!("ok={} len={}", r.is_ok(), b.len()), len);
                    continue;
                }
                check_mem!("put_u8", len, before, &exp);
                ctx.out.inc("c14_refusals");
            }
        }
    }
    // ---- slices ----------------------------------------------------------------------------
    for &len in lens.iter() {
        let maxs = cap + 2 - len.min(cap + 2);
        let sl: Vec<usize> = if thin { vec![0, 1, cap - len, cap - len + 1] } else { (0..=maxs).collect() };
        for s in sl {
            ctx.out.inc("c14_cases");
            let data: Vec<u8> = (0..s).map(|i| bg(i + 1000, salt ^ 77) ^ 0xFF).collect();
            let before = prep!(len);
            let r = b.put_slice(&data);
            let mut exp = before[off..off + cap].to_vec();
            if len + s <= cap {
                exp[len..len + s].copy_from_slice(&data);
                if r.is_err() || b.len() != len + s {
                    ctx.viol("put_slice", "refused-or-len", format!("slice {} at len {} cap {}: ok={} len={}", s, len, cap, r.is_ok(), b.len()), len);
                    continue;
                }
                if !check_mem!("put_slice", len, before, &exp) {
                    continue;
                }
                // io::Write
                let before = prep!(len);
                let w = std::io::Write::write(b, &data);
                if w.as_ref().ok() != Some(&s) || b.len() != len + s || !check_mem!("io_write", len, before, &exp) {
                    if w.as_ref().ok() != Some(&s) || b.len() != len + s {
                        ctx.viol("io_write", "refused-or-len", format!("write of {} returned {:?} len {}", s, w.ok(), b.len()), len);
                    }
                    continue;
                }
            } else {
                if r.is_ok() || b.len() != len {
                    ctx.viol("put_slice", "accepted-overflow", format!("slice {} at len {} cap {}: ok={} len={}", s, len, cap, r.is_ok(), b.len()), len);
                    continue;
                }
                check_mem!("put_slice", len, before, &exp);
                ctx.out.inc("c14_refusals");
            }
        }
    }
    // ---- set_len ------------------------------------------------------------------------------
    for &len in lens.iter() {
        for &nl in lens.iter() {
            ctx.out.inc("c14_cases");
            let before = prep!(len);
            b.set_len(nl);
            let mut exp = before[off..off + cap].to_vec();
            let (lo, hi) = if nl > len { (len, nl) } else { (nl, len) };
            for e in exp[lo..hi].iter_mut() {
                *e = 0;
            }
            if b.len() != nl {
                ctx.viol("set_len", "len", format!("set_len({}) left len {}", nl, b.len()), len);
                continue;
            }
            check_mem!("set_len", len, before, &exp);
        }
    }
    // ---- varints on an empty buffer -----------------------------------------------------------
    macro_rules! varint_case {
        ($ty:ident, $put:ident, $get:ident, $write:ident) => {{
            let vals: Vec<$ty> = vec![0 as $ty, 1 as $ty, 127 as $ty, 128u16 as $ty, <$ty>::MAX, <$ty>::MIN, (<$ty>::MAX / 3), rng.next() as $ty, (rng.next() as $ty) >> 5, -1i8 as $ty];
            for v in vals {
                ctx.out.inc("c14_cases");
                let before = prep!(0);
                let r = b.$put(v);
                match r {
                    Ok(n) => {
                        if b.len() != n || n > cap {
                            ctx.viol(stringify!($put), "len", format!("returned {} but len {} cap {}", n, b.len(), cap), 0);
                            continue;
                        }
                        // bytes beyond n unchanged, outside untouched
                        let after = arena.memory().to_vec();
                        let mut exp = before[off..off + cap].to_vec();
                        exp[..n].copy_from_slice(&after[off..off + n]);
                        if !check_mem!(stringify!($put), 0, before, &exp) {
                            continue;
                        }
                        match b.$get() {
                            Ok((m, x)) if m == n && x == v => {
                                ctx.out.inc("c14_varint_roundtrips");
                            }
                            other => {
                                ctx.viol(stringify!($get), "round-trip", format!("put {:?} ({} bytes) then get returned {:?}", v, n, other.ok()), 0);
                                continue;
                            }
                        }
                    }
                    Err(_) => {
                        if b.len() != 0 {
                            ctx.viol(stringify!($put), "len-after-error", format!("len {} after refusal", b.len()), 0);
                            continue;
                        }
                        // nothing outside touched (bytes inside may be scratch per statement: only fixed-width puts leave every byte unchanged)
                        let after = arena.memory().to_vec();
                        let exp = after[off..off + cap].to_vec();
                        check_mem!(stringify!($put), 0, before, &exp);
                        // a value that needs at most `cap` bytes must not be refused
                        let need = {
                            let mut tmp = [0u8; 40];
                            let mut n = 0usize;
                            // reference LEB128 length of the two's complement / zigzag is implementation
                            // specific; only assert for buffers that can hold the longest encoding
                            let _ = &mut tmp;
                            n += (core::mem::size_of::<$ty>() * 8 + 6) / 7;
                            n
                        };
                        if cap >= need {
                            ctx.viol(stringify!($put), "refused-though-fits", format!("capacity {} holds the longest encoding ({} bytes) but put of {:?} was refused", cap, need, v), 0);
                        }
                        ctx.out.inc("c14_refusals");
                    }
                }
                let _ = stringify!($write);
            }
        }};
    }
    // ---- varint puts at every fill level: in bounds or refused, nothing outside touched ---------
    macro_rules! varint_fill_case {
        ($ty:ident, $put:ident, $signed:expr) => {{
            for &len in lens.iter() {
                if len == 0 {
                    continue;
                }
                let vals: [$ty; 4] = [1 as $ty, <$ty>::MAX, (<$ty>::MAX / 5), rng.next() as $ty];
                for v in vals {
                    ctx.out.inc("c14_cases");
                    // reference encoding (LEB128 of the value, zig-zag for signed types)
                    let mut u: u128 = if $signed { (((v as i128) << 1) ^ ((v as i128) >> 127)) as u128 } else { v as u128 };
                    if !$signed {
                        u &= (<$ty>::MAX as u128);
                    } else {
                        u &= ((<$ty>::MAX as u128) << 1) | 1;
                    }
                    let mut enc: Vec<u8> = vec![];
                    loop {
                        let b = (u & 0x7F) as u8;
                        u >>= 7;
                        if u == 0 {
                            enc.push(b);
                            break;
                        }
                        enc.push(b | 0x80);
                    }
                    let before = prep!(len);
                    let r = b.$put(v);
                    let mut exp = before[off..off + cap].to_vec();
                    match r {
                        Ok(n) => {
                            if len + n > cap || b.len() != len + n {
                                ctx.viol(stringify!($put), "accepted-overflow", format!("put at len {} of capacity {} returned Ok({}) and len {}", len, cap, n, b.len()), len);
                                let p = arena.raw_mut_ptr();
                                for i in 0..acap {
                                    unsafe { *p.add(i) = before[i] };
                                }
                                continue;
                            }
                            if n != enc.len() {
                                ctx.viol(stringify!($put), "wrong-length", format!("value {:?} encoded in {} bytes, reference needs {}", v, n, enc.len()), len);
                                continue;
                            }
                            exp[len..len + n].copy_from_slice(&enc);
                            check_mem!(stringify!($put), len, before, &exp);
                            ctx.out.inc("c14_varint_fill_ok");
                        }
                        Err(_) => {
                            if b.len() != len {
                                ctx.viol(stringify!($put), "len-after-error", format!("len {} -> {} after refusal", len, b.len()), len);
                                continue;
                            }
                            // bytes inside may be scratch; outside must be untouched
                            let after = arena.memory().to_vec();
                            let inside = after[off..off + cap].to_vec();
                            if !check_mem!(stringify!($put), len, before, &inside) {
                                let p = arena.raw_mut_ptr();
                                for i in 0..acap {
                                    unsafe { *p.add(i) = before[i] };
                                }
                                continue;
                            }
                            if len + enc.len() <= cap {
                                ctx.viol(stringify!($put), "refused-though-fits", format!("{} bytes fit at len {} of capacity {} but the put was refused", enc.len(), len, cap), len);
                            }
                            ctx.out.inc("c14_refusals");
                        }
                    }
                }
            }
        }};
    }
    varint_fill_case!(u16, put_u16_varint, false);
    varint_fill_case!(u32, put_u32_varint, false);
    varint_fill_case!(u64, put_u64_varint, false);
    varint_fill_case!(u128, put_u128_varint, false);
    varint_fill_case!(i16, put_i16_varint, true);
    varint_fill_case!(i32, put_i32_varint, true);
    varint_fill_case!(i64, put_i64_varint, true);
    varint_fill_case!(i128, put_i128_varint, true);
    varint_case!(u16, put_u16_varint, get_u16_varint, write_u16_varint);
    varint_case!(u32, put_u32_varint, get_u32_varint, write_u32_varint);
    varint_case!(u64, put_u64_varint, get_u64_varint, write_u64_varint);
    varint_case!(u128, put_u128_varint, get_u128_varint, write_u128_varint);
    varint_case!(i16, put_i16_varint, get_i16_varint, write_i16_varint);
    varint_case!(i32, put_i32_varint, get_i32_varint, write_i32_varint);
    varint_case!(i64, put_i64_varint, get_i64_varint, write_i64_varint);
    varint_case!(i128, put_i128_varint, get_i128_varint, write_i128_varint);
    // ---- align_to / put / put_aligned -----------------------------------------------------------
    macro_rules! align_case {
        ($t:ty, $mk:expr, $tn:expr) => {{
            const SZ: usize = core::mem::size_of::<$t>();
            const AL: usize = core::mem::align_of::<$t>();
            for &len in lens.iter() {
                ctx.out.inc("c14_cases");
                // align_to
                let before = prep!(len);
                let r = b.align_to::<$t>();
                let exp = before[off..off + cap].to_vec();
                match r {
                    Ok(p) => {
                        let a = p.as_ptr() as usize;
                        let nl = b.len();
                        if (a - base) % AL != 0 || (AL <= 8 && a % AL != 0) {
                            ctx.viol(concat!("align_to<", $tn, ">"), "misaligned", format!("pointer base+{} not aligned to {} (buffer offset {}, len {} -> {})", a - base, AL, off, len, nl), len);
                        } else if a < base + off || a + SZ > base + off + cap || nl < len || nl > cap || a != base + off + nl {
                            ctx.viol(concat!("align_to<", $tn, ">"), "outside-buffer", format!("pointer base+{} (+{} bytes) len {} -> {}; buffer is [{},{})", a - base, SZ, len, nl, off, off + cap), len);
                        } else {
                            check_mem!(concat!("align_to<", $tn, ">"), len, before, &exp);
                            ctx.out.inc("c14_align_ok");
                        }
                    }
                    Err(_) => {
                        if b.len() != len {
                            ctx.viol(concat!("align_to<", $tn, ">"), "len-after-error", format!("len {} -> {}", len, b.len()), len);
                        } else {
                            check_mem!(concat!("align_to<", $tn, ">"), len, before, &exp);
                        }
                        // an aligned slot exists inside the buffer -> must not be refused
                        let first = base + (off + len + AL - 1) / AL * AL;
                        if first + SZ <= base + off + cap {
                            ctx.viol(concat!("align_to<", $tn, ">"), "refused-though-fits", format!("an aligned slot exists at base+{} within [{},{})", first - base, off, off + cap), len);
                        }
                    }
                }
                // put_aligned
                let before = prep!(len);
                let v: $t = $mk;
                let vb: [u8; SZ] = unsafe { core::mem::transmute_copy(&v) };
                let r = unsafe { b.put_aligned::<$t>(v) }.map(|x| x as *mut $t as usize);
                let nl = b.len();
                match r {
                    Ok(a) => {
                        let inside = a >= base + off && a + SZ <= base + off + cap;
                        if !inside {
                            ctx.viol(concat!("put_aligned<", $tn, ">"), "stored-outside-buffer", format!("value stored at base+{} (+{}), buffer is [{},{}) len {} -> {}", a.wrapping_sub(base), SZ, off, off + cap, len, nl), len);
                            // restore damaged bytes so later cases see a sane arena
                            let p = arena.raw_mut_ptr();
                            for i in 0..acap {
                                unsafe { *p.add(i) = before[i] };
                            }
                            continue;
                        }
                        if (a - base) % AL != 0 || (AL <= 8 && a % AL != 0) {
                            ctx.viol(concat!("put_aligned<", $tn, ">"), "misaligned", format!("value stored at base+{} not aligned to {}", a - base, AL), len);
                            continue;
                        }
                        if nl != a - base - off + SZ || nl > cap {
                            ctx.viol(concat!("put_aligned<", $tn, ">"), "len", format!("len {} -> {} but value ends at {}", len, nl, a - base - off + SZ), len);
                            continue;
                        }
                        let mut exp = before[off..off + cap].to_vec();
                        let s = a - base - off;
                        exp[s..s + SZ].copy_from_slice(&vb);
                        check_mem!(concat!("put_aligned<", $tn, ">"), len, before, &exp);
                        ctx.out.inc("c14_put_aligned_ok");
                    }
                    Err(_) => {
                        let exp = before[off..off + cap].to_vec();
                        if nl != len {
                            ctx.viol(concat!("put_aligned<", $tn, ">"), "len-after-error", format!("len {} -> {}", len, nl), len);
                        } else {
                            check_mem!(concat!("put_aligned<", $tn, ">"), len, before, &exp);
                        }
                        ctx.out.inc("c14_refusals");
                    }
                }
                // put (caller aligned already: use align 1 view -> only bounds matter)
                let before = prep!(len);
                let v: [u8; SZ] = vb;
                let r = unsafe { b.put::<[u8; SZ]>(v) }.map(|x| x as *mut [u8; SZ] as usize).ok();
                let mut exp = before[off..off + cap].to_vec();
                if len + SZ <= cap {
                    exp[len..len + SZ].copy_from_slice(&vb);
                    if r.is_none() || b.len() != len + SZ || r != Some(base + off + len) {
                        ctx.viol("put<T>", "refused-or-len", format!("size {} at len {} cap {}", SZ, len, cap), len);
                    } else {
                        check_mem!("put<T>", len, before, &exp);
                    }
                } else if r.is_some() || b.len() != len {
                    ctx.viol("put<T>", "accepted-overflow", format!("size {} at len {} cap {}", SZ, len, cap), len);
                    let p = arena.raw_mut_ptr();
                    for i in 0..acap {
                        unsafe { *p.add(i) = before[i] };
                    }
                } else {
                    check_mem!("put<T>", len, before, &exp);
                }
            }
        }};
    }
    align_case!(u8, 0xC3u8, "u8");
    align_case!(u16, 0xBEEFu16, "u16");
    align_case!(u32, 0xDEAD_BEEFu32, "u32");
    align_case!(u64, 0x0123_4567_89AB_CDEFu64, "u64");
    align_case!(A16<16>, A16([0x77u8; 16]), "A16x16");
    align_case!(A4<12>, A4([0x66u8; 12]), "A4x12");
}

