//! C15: arena-level readers never look beyond the allocated prefix (sweep over every offset and
//! every reader against a reference decode of a private copy of memory()).
//! C19: checksum() covers exactly allocated_memory()[reserved..], however it is chunked.

use crate::arena::*;
use crate::out::Out;
use crate::util::json::J;
use crate::util::rng::{mix, Rng};
use crate::Args;
use rarena_allocator::checksum::{BuildChecksumer, Checksumer, Crc32};
#[allow(unused_imports)]
use rarena_allocator::{sync, unsync, Allocator, ArenaPosition, Error, Freelist, Options};
use std::cell::RefCell;
use std::rc::Rc;

// ---- reference LEB128 (unsigned base-128, zig-zag for signed) --------------------------------

fn ref_uvarint(buf: &[u8], bits: u32, max_len: usize) -> Result<(usize, u128), ()> {
    let mut result: u128 = 0;
    let mut shift = 0u32;
    let mut i = 0usize;
    loop {
        if i == max_len || i >= buf.len() {
            return Err(());
        }
        let b = buf[i];
        let room = bits.saturating_sub(shift);
        if room < 8 {
            // only `room` payload bits may still be set, and no continuation
            let mask: u8 = if room == 0 { 0xFF } else { 0xFFu8 << room };
            if b & mask != 0 {
                return Err(());
            }
        }
        result |= ((b & 0x7F) as u128) << shift;
        if b & 0x80 == 0 {
            return Ok((i + 1, result));
        }
        shift += 7;
        i += 1;
    }
}

fn unzig(v: u128) -> i128 {
    ((v >> 1) as i128) ^ -((v & 1) as i128)
}

// ---- C15 -----------------------------------------------------------------------------------

thread_local! {
    static CLEARED_DATA_OFFSET: std::cell::Cell<Option<(usize, usize)>> = const { std::cell::Cell::new(None) };
}

struct Prep<A: VArena> {
    arena: A,
    copy: Vec<u8>,
    allocated: usize,
}

fn prepare<A: VArena>(rng: &mut Rng, cap: u32, fill_to: u32, unify: bool, reserved: u32) -> Prep<A> {
    let arena: A = Options::new()
        .with_capacity(cap)
        .with_unify(unify)
        .with_reserved(reserved)
        .with_freelist(Freelist::None)
        .alloc::<A>()
        .expect("arena");
    // every third arena has been used and cleared before (a cleared arena is as good as a fresh one: the
    // accessors must describe it the same way)
    if (cap + fill_to + reserved) % 3 == 0 {
        let d0 = arena.data_offset();
        let _ = arena.alloc_bytes((cap / 4).max(1));
        let _ = unsafe { arena.clear() };
        CLEARED_DATA_OFFSET.with(|c| c.set(Some((d0, arena.data_offset()))));
    } else {
        CLEARED_DATA_OFFSET.with(|c| c.set(None));
    }
    // write non-zero bytes (mostly continuation bytes) everywhere in the data area, also above the cursor
    unsafe { arena.rewind(ArenaPosition::End(0)) };
    let d = arena.data_offset();
    let p = arena.raw_mut_ptr();
    for i in d..cap as usize {
        let r = rng.next();
        let b = match r % 8 {
            0 => (r >> 8) as u8 & 0x7F,
            1 => 0xFF,
            2 => 0x80,
            _ => ((r >> 8) as u8) | 0x80,
        };
        unsafe { *p.add(i) = if b == 0 { 0x81 } else { b } };
    }
    // last bytes before the cursor: make varints that would run across the cursor
    unsafe { arena.rewind(ArenaPosition::Start(fill_to)) };
    let allocated = arena.allocated();
    let copy = arena.memory().to_vec();
    Prep { arena, copy, allocated }
}

fn offsets_extreme() -> Vec<usize> {
    let mut v = vec![];
    for k in 0..=16usize {
        v.push(usize::MAX - k);
        v.push((isize::MAX as usize).wrapping_sub(k));
        v.push((isize::MAX as usize).wrapping_add(k));
        v.push((u32::MAX as usize).wrapping_sub(k));
        v.push((u32::MAX as usize).wrapping_add(k));
        v.push((1usize << 31) + k);
        v.push((1usize << 31) - k);
        v.push((1usize << 63) - k);
    }
    v
}

fn sweep<A: VArena>(out: &mut Out, pr: &Prep<A>, offsets: &[usize], label: &str, only: Option<&str>) {
    let a = &pr.arena;
    let allocated = pr.allocated;
    let cap = pr.copy.len();
    // slice accessors
    if let Some((d0, d1)) = CLEARED_DATA_OFFSET.with(|c| c.get()) {
        out.inc("c15_slice_length_checks_on_cleared_arenas");
        if d0 != d1 {
            out.viol("C15", "slice-lengths:data-offset-moved-by-clear", crate::jobj!("message" => format!("data_offset() was {} before clear() and is {} after it (data() = allocated_memory()[data_offset()..])", d0, d1)));
            return;
        }
    }
    let lens = std::panic::catch_unwind(std::panic::AssertUnwindSafe(|| (a.allocated_memory().len(), a.data().len(), a.memory().len())));
    match lens {
        Err(_) => {
            let (loc, msg) = crate::seq::LAST_PANIC.with(|p| p.borrow().clone());
            out.viol("C15", "slice-accessor-panicked", crate::jobj!("message" => format!("allocated_memory() / data() / memory() panicked at {}: {} (allocated()={} data_offset()={} capacity()={})", loc, msg, allocated, a.data_offset(), a.capacity())));
            return;
        }
        Ok((am, dl, ml)) => {
            if am != allocated || Some(dl) != allocated.checked_sub(a.data_offset()) || ml != a.capacity() || a.capacity() != cap {
                out.viol("C15", "slice-lengths", crate::jobj!("message" => format!("allocated_memory().len()={} data().len()={} memory().len()={} with allocated()={} data_offset()={} capacity()={}", am, dl, ml, allocated, a.data_offset(), a.capacity())));
            }
        }
    }
    out.inc("c15_slice_length_checks");
    macro_rules! fixed {
        ($name:ident, $ty:ident, $from:ident) => {{
            if only.map_or(true, |o| o == stringify!($name)) {
                const SZ: usize = core::mem::size_of::<$ty>();
                for &off in offsets {
                    out.inc("c15_cases");
                    let inb = off.checked_add(SZ).map_or(false, |e| e <= allocated);
                    if off > cap + 64 {
                        out.at(&format!("readers {} {} offset={}", label, stringify!($name), off));
                    }
                    let r = std::panic::catch_unwind(std::panic::AssertUnwindSafe(|| a.$name(off)));
                    match r {
                        Err(_) => {
                            let (loc, msg) = crate::seq::LAST_PANIC.with(|p| p.borrow().clone());
                            out.viol("C15", &format!("{}:panic", stringify!($name)), crate::jobj!("offset" => off as u128, "allocated" => allocated, "location" => loc, "message" => msg));
                            break;
                        }
                        Ok(Ok(v)) => {
                            if !inb {
                                out.viol("C15", &format!("{}:read-beyond-allocated", stringify!($name)), crate::jobj!("offset" => off as u128, "allocated" => allocated, "message" => format!("returned Ok({:?}) although offset+{} > allocated", v, SZ)));
                                break;
                            }
                            let exp = <$ty>::$from(pr.copy[off..off + SZ].try_into().unwrap());
                            if v != exp {
                                out.viol("C15", &format!("{}:wrong-value", stringify!($name)), crate::jobj!("offset" => off as u128, "message" => format!("returned {:?}, bytes decode to {:?}", v, exp)));
                                break;
                            }
                            out.inc("c15_values_checked");
                        }
                        Ok(Err(e)) => {
                            if inb || !matches!(e, Error::OutOfBounds { .. }) {
                                out.viol("C15", &format!("{}:refused-in-bounds", stringify!($name)), crate::jobj!("offset" => off as u128, "allocated" => allocated, "message" => format!("returned {:?} for a value wholly below allocated (or a wrong error kind)", e)));
                                break;
                            }
                            out.inc("c15_out_of_bounds_refusals");
                        }
                    }
                }
            }
        }};
    }
    fixed!(get_u8, u8, from_ne_bytes);
    fixed!(get_i8, i8, from_ne_bytes);
    fixed!(get_u16_be, u16, from_be_bytes);
    fixed!(get_u16_le, u16, from_le_bytes);
    fixed!(get_u32_be, u32, from_be_bytes);
    fixed!(get_u32_le, u32, from_le_bytes);
    fixed!(get_u64_be, u64, from_be_bytes);
    fixed!(get_u64_le, u64, from_le_bytes);
    fixed!(get_u128_be, u128, from_be_bytes);
    fixed!(get_u128_le, u128, from_le_bytes);
    fixed!(get_i16_be, i16, from_be_bytes);
    fixed!(get_i16_le, i16, from_le_bytes);
    fixed!(get_i32_be, i32, from_be_bytes);
    fixed!(get_i32_le, i32, from_le_bytes);
    fixed!(get_i64_be, i64, from_be_bytes);
    fixed!(get_i64_le, i64, from_le_bytes);
    fixed!(get_i128_be, i128, from_be_bytes);
    fixed!(get_i128_le, i128, from_le_bytes);
    macro_rules! varint {
        ($name:ident, $ty:ident, $bits:expr, $max:expr, $signed:expr) => {{
            if only.map_or(true, |o| o == stringify!($name)) {
                for &off in offsets {
                    out.inc("c15_cases");
                    if off > cap + 64 {
                        out.at(&format!("readers {} {} offset={}", label, stringify!($name), off));
                    }
                    let r = std::panic::catch_unwind(std::panic::AssertUnwindSafe(|| a.$name(off)));
                    let r = match r {
                        Err(_) => {
                            let (loc, msg) = crate::seq::LAST_PANIC.with(|p| p.borrow().clone());
                            out.viol("C15", &format!("{}:panic", stringify!($name)), crate::jobj!("offset" => off as u128, "allocated" => allocated, "location" => loc, "message" => msg));
                            break;
                        }
                        Ok(r) => r,
                    };
                    if off >= allocated {
                        match r {
                            Err(Error::OutOfBounds { .. }) => out.inc("c15_out_of_bounds_refusals"),
                            other => {
                                out.viol("C15", &format!("{}:read-beyond-allocated", stringify!($name)), crate::jobj!("offset" => off as u128, "allocated" => allocated, "message" => format!("offset >= allocated but returned {:?}", other.map(|x| x.0))));
                                break;
                            }
                        }
                        continue;
                    }
                    let end = allocated.min(off + $max);
                    let exp = ref_uvarint(&pr.copy[off..end], $bits, $max);
                    match (r, exp) {
                        (Ok((n, v)), Ok((en, ev))) => {
                            let evv: $ty = if $signed { unzig(ev) as $ty } else { ev as $ty };
                            if n != en || v != evv {
                                out.viol("C15", &format!("{}:wrong-value", stringify!($name)), crate::jobj!("offset" => off as u128, "allocated" => allocated, "message" => format!("returned ({}, {:?}); the bytes below allocated decode to ({}, {:?})", n, v, en, evv)));
                                break;
                            }
                            out.inc("c15_values_checked");
                        }
                        (Ok((n, v)), Err(())) => {
                            out.viol("C15", &format!("{}:consumed-beyond-allocated", stringify!($name)), crate::jobj!("offset" => off as u128, "allocated" => allocated, "message" => format!("returned ({}, {:?}) but the bytes in [offset, allocated) alone do not form a complete value", n, v)));
                            break;
                        }
                        (Err(Error::OutOfBounds { .. }), _) => {
                            out.viol("C15", &format!("{}:refused-in-bounds", stringify!($name)), crate::jobj!("offset" => off as u128, "allocated" => allocated, "message" => "OutOfBounds for an offset below allocated"));
                            break;
                        }
                        (Err(_), Ok((en, ev))) => {
                            out.viol("C15", &format!("{}:refused-in-bounds", stringify!($name)), crate::jobj!("offset" => off as u128, "allocated" => allocated, "message" => format!("decode error although the bytes below allocated hold a complete value ({}, {})", en, ev)));
                            break;
                        }
                        (Err(_), Err(())) => out.inc("c15_truncated_varints_refused"),
                    }
                }
            }
        }};
    }
    varint!(get_u16_varint, u16, 16, 3, false);
    varint!(get_u32_varint, u32, 32, 5, false);
    varint!(get_u64_varint, u64, 64, 10, false);
    varint!(get_u128_varint, u128, 128, 19, false);
    varint!(get_i16_varint, i16, 16, 3, true);
    varint!(get_i32_varint, i32, 32, 5, true);
    varint!(get_i64_varint, i64, 64, 10, true);
    varint!(get_i128_varint, i128, 128, 19, true);
}

pub fn c15_main(args: &Args) -> i32 {
    let seed = args.u64("seed", 1);
    let mut out = Out::new();
    out.viol_cap = 100;
    crate::seq::install_panic_capture();
    let mut rng = Rng::new(seed ^ 0xC15);
    let extreme = args.has("extreme");
    let n_arenas = args.u64("arenas", 12);
    for i in 0..n_arenas {
        let cap = *rng.pick(&[64u32, 96, 128, 200, 256, 512, 300, 77]) + rng.below(8) as u32;
        let unify = i % 2 == 0;
        let reserved = *rng.pick(&[0u32, 1, 5, 8]);
        let d = if unify { ((reserved + 7) & !7) + 32 } else { reserved + 1 };
        let fill = match i % 6 {
            0 => d,
            1 => cap,
            2 => cap - 1,
            3 => d + 1,
            _ => d + rng.below((cap - d) as u64 + 1) as u32,
        };
        for flavour in ["sync", "unsync"] {
            let label = format!("--seed {} arena={} cap={} fill={} unify={} reserved={} {}", seed, i, cap, fill, unify, reserved, flavour);
            out.at(&format!("readers {}", label));
            let offsets: Vec<usize> = if extreme { offsets_extreme() } else { (0..=cap as usize + 16).collect() };
            if flavour == "sync" {
                let pr = prepare::<sync::Arena>(&mut rng.clone(), cap, fill, unify, reserved);
                sweep(&mut out, &pr, &offsets, &label, None);
            } else {
                let pr = prepare::<unsync::Arena>(&mut rng.clone(), cap, fill, unify, reserved);
                sweep(&mut out, &pr, &offsets, &label, None);
            }
            out.hash(mix(mix(cap as u64, fill as u64), mix(i, if flavour == "sync" { 1 } else { 2 }) ^ extreme as u64));
            out.inc("c15_arenas");
            out.sample(J::Str(format!("readers {}{}", label, if extreme { " --extreme" } else { "" })));
        }
        rng.next();
    }
    out.emit();
    0
}

// ---- C19 -----------------------------------------------------------------------------------

#[derive(Clone)]
struct PosHash {
    log: Rc<RefCell<Vec<usize>>>,
}
struct PosHasher {
    h: u64,
    n: u64,
    log: Rc<RefCell<Vec<usize>>>,
}
impl Checksumer for PosHasher {
    fn update(&mut self, buf: &[u8]) {
        self.log.borrow_mut().push(buf.len());
        for b in buf {
            // position dependent: reordering, dropping or duplicating any chunk changes the digest
            self.h = (self.h ^ (*b as u64).wrapping_add(self.n.wrapping_mul(0x9E37_79B9_7F4A_7C15))).wrapping_mul(0x0000_0100_0000_01B3);
            self.n += 1;
        }
    }
    fn reset(&mut self) {
        self.h = 0xcbf2_9ce4_8422_2325;
        self.n = 0;
    }
    fn digest(&self) -> u64 {
        self.h ^ self.n
    }
}
impl BuildChecksumer for PosHash {
    type Checksumer = PosHasher;
    fn build_checksumer(&self) -> PosHasher {
        PosHasher { h: 0xcbf2_9ce4_8422_2325, n: 0, log: self.log.clone() }
    }
    fn checksum_one(&self, src: &[u8]) -> u64 {
        let mut h = PosHasher { h: 0xcbf2_9ce4_8422_2325, n: 0, log: Rc::new(RefCell::new(vec![])) };
        h.update(src);
        h.digest()
    }
}

fn c19_case<A: VArena>(out: &mut Out, rng: &mut Rng, reserved: u32, unify: bool, backend: Backend, alloc_len: u32) {
    let cap = alloc_len.max(64) + 64;
    let opts = Options::new().with_capacity(cap).with_reserved(reserved).with_unify(unify).with_freelist(Freelist::None);
    let arena: A = match backend {
        Backend::Vec => opts.alloc::<A>().expect("arena"),
        _ => opts.map_anon::<A>().expect("arena"),
    };
    let d = arena.data_offset() as u32;
    if alloc_len < d {
        return;
    }
    // random content everywhere (prefix included), then place the cursor
    let p = arena.raw_mut_ptr();
    for i in d as usize..cap as usize {
        unsafe { *p.add(i) = rng.byte() };
    }
    if reserved > 0 {
        let s = unsafe { arena.reserved_slice_mut() };
        rng.fill(s);
    }
    unsafe { arena.rewind(ArenaPosition::Start(alloc_len)) };
    if arena.allocated() != alloc_len as usize {
        out.inconclusive("could not place the cursor");
        return;
    }
    let reference = &arena.allocated_memory()[arena.reserved_bytes()..];
    out.inc("c19_cases");
    let crc = Crc32::new();
    let got = arena.checksum(&crc);
    let exp = crc.checksum_one(reference);
    if got != exp {
        out.viol("C19", "crc32-mismatch", crate::jobj!("allocated" => alloc_len, "reserved" => reserved, "unify" => unify, "message" => format!("checksum(Crc32)={:#x}, one-shot over allocated_memory()[reserved..] = {:#x}", got, exp)));
    }
    let ph = PosHash { log: Rc::new(RefCell::new(vec![])) };
    let got = arena.checksum(&ph);
    let exp = ph.checksum_one(reference);
    let chunks = ph.log.borrow().clone();
    out.maxv("c19_max_chunks", chunks.len() as u64);
    if chunks.len() > 1 {
        out.inc("c19_multi_chunk_cases");
    }
    if got != exp || chunks.iter().sum::<usize>() != reference.len() {
        out.viol("C19", "position-hash-mismatch", crate::jobj!("allocated" => alloc_len, "reserved" => reserved, "unify" => unify, "chunks" => J::Arr(chunks.iter().map(|c| J::Int(*c as i128)).collect()), "message" => format!("chunked digest {:#x} != one-shot {:#x} over {} bytes (chunks sum to {})", got, exp, reference.len(), chunks.iter().sum::<usize>())));
    }
    out.hash(mix(mix(alloc_len as u64, reserved as u64), unify as u64 * 2 + (A::FLAVOUR == Flavour::Sync) as u64));
}

pub fn c19_main(args: &Args) -> i32 {
    let seed = args.u64("seed", 1);
    let mut out = Out::new();
    crate::seq::install_panic_capture();
    let mut rng = Rng::new(seed ^ 0xC19);
    let from = args.u64("from", 0) as u32;
    let to = args.u64("to", 3 * 4096 + 1) as u32;
    let step_mode = args.str("lens", "quick");
    let reserved_set: Vec<u32> = vec![0, 1, 7, 8, 9, 31, 32, 63, 64];
    let mut lens: Vec<u32> = vec![];
    if step_mode == "all" {
        lens = (from..=to).collect();
    } else {
        for page in 0..=3u32 {
            for d in -2i64..=2 {
                let v = page as i64 * 4096 + d;
                if v >= 0 {
                    lens.push(v as u32);
                }
            }
        }
        for _ in 0..args.u64("random", 200) {
            lens.push(rng.range(0, 3 * 4096 + 1) as u32);
        }
        // reserved-relative page multiples
        for r in reserved_set.iter() {
            for page in 1..=3u32 {
                for d in -1i64..=1 {
                    lens.push((page as i64 * 4096 + *r as i64 + d) as u32);
                }
            }
        }
    }
    for (k, l) in lens.iter().enumerate() {
        let rs: Vec<u32> = if step_mode == "all" { vec![reserved_set[k % reserved_set.len()], reserved_set[(k / 3 + 4) % reserved_set.len()]] } else { reserved_set.clone() };
        for r in rs {
            let unify = (k + r as usize) % 2 == 0;
            let backend = if k % 5 == 0 && !cfg!(miri) { Backend::Anon } else { Backend::Vec };
            if k % 2 == 0 {
                c19_case::<sync::Arena>(&mut out, &mut rng, r, unify, backend, *l);
            } else {
                c19_case::<unsync::Arena>(&mut out, &mut rng, r, unify, backend, *l);
            }
        }
    }
    out.sample(crate::jobj!("allocated_lengths_prefix" => J::Arr(lens.iter().take(24).map(|x| J::Int(*x as i128)).collect()), "reserved_values" => J::Arr(reserved_set.iter().map(|x| J::Int(*x as i128)).collect())));
    out.emit();
    0
}
