//! `vh drive <ID> --tier quick|thorough` — the parent for one property check.
use crate::Args;

pub fn main(_args: &Args) -> i32 {
    eprintln!("drive: not wired yet");
    3
}
