//! `vh drive <ID> --tier quick|thorough [--seed N]` — the parent for one property check.
//! `vh drive --replay <file>` re-executes the case recorded in a replay file.
use crate::drv::*;
use crate::util::json::{self, J};
use crate::Args;
use std::time::Instant;

pub const CORES: usize = 16;

pub fn bin(variant: &str) -> String {
    match variant {
        "rel" => "/verif/target/rel/release/vh".to_string(),
        "dbg" => "/verif/target/dbg/debug/vh".to_string(),
        "asan" => "/verif/target/asan/x86_64-unknown-linux-gnu/release/vh".to_string(),
        "tsan" => "/verif/target/tsan/x86_64-unknown-linux-gnu/release/vh".to_string(),
        _ => panic!("unknown variant"),
    }
}

pub fn have(variant: &str) -> bool {
    std::path::Path::new(&bin(variant)).exists()
}

fn sv(v: &[&str]) -> Vec<String> {
    v.iter().map(|s| s.to_string()).collect()
}

pub struct Plan {
    pub level: &'static str,
    pub rule: String,
    pub assumptions: Vec<String>,
    pub jobs: Vec<Job>,
    pub eval_counter: &'static str,
    pub required_nonzero: Vec<String>,
    pub min_eval: u64,
    pub min_distinct: u64,
    pub extra_prefixes: Vec<&'static str>,
    pub exhaustive: bool,
    pub par: usize,
}

fn seq_jobs(prop: &str, seed: u64, variant: &str, shards: u64, count: u64, secs: u64, base: u64) -> Vec<Job> {
    (0..shards)
        .map(|k| {
            let mut j = Job::new(
                &format!("seq-{}-{}", variant, k),
                &bin(variant),
                sv(&["seq", "--prop", prop, "--seed", &seed.to_string(), "--from", &(base + k).to_string(), "--stride", &shards.to_string(), "--count", &count.to_string(), "--secs", &secs.to_string()]),
            );
            j.timeout_s = secs * 3 + 60;
            j
        })
        .collect()
}

fn sched_jobs(prop: &str, seed: u64, fam: &str, shards: u64, count: u64, secs: u64, sweep: bool) -> Vec<Job> {
    (0..shards)
        .map(|k| {
            let mut a = sv(&["sched", "--prop", prop, "--seed", &seed.to_string(), "--family", fam, "--from", &k.to_string(), "--stride", &shards.to_string(), "--count", &count.to_string(), "--secs", &secs.to_string()]);
            if sweep {
                a.push("--sweep".into());
            }
            let mut j = Job::new(&format!("sched-{}-{}", fam, k), &bin("rel"), a);
            j.timeout_s = secs * 3 + 120;
            j.sig_suffix = format!(":family-{}", fam);
            j
        })
        .collect()
}

fn free_jobs(prop: &str, seed: u64, variant: &str, fam: &str, shards: u64, count: u64, secs: u64) -> Vec<Job> {
    (0..shards)
        .map(|k| {
            let mut j = Job::new(
                &format!("free-{}-{}-{}", variant, fam, k),
                &bin(variant),
                sv(&["free", "--prop", prop, "--seed", &seed.to_string(), "--family", fam, "--from", &k.to_string(), "--stride", &shards.to_string(), "--count", &count.to_string(), "--secs", &secs.to_string()]),
            );
            j.timeout_s = secs * 2 + 120;
            j.sig_suffix = format!(":family-{}", fam);
            // a free-running child that is killed by the watchdog or dies is not attributable with certainty
            match variant {
                "tsan" => {
                    j.env.push(("TSAN_OPTIONS".into(), "halt_on_error=1 exitcode=66 report_signal_unsafe=0".into()));
                    j.report_codes = vec![66];
                }
                "asan" => {
                    j.env.push(("ASAN_OPTIONS".into(), "detect_leaks=0:halt_on_error=1:exitcode=67".into()));
                    j.report_codes = vec![67];
                }
                _ => {}
            }
            j
        })
        .collect()
}

fn miri_seq_jobs(prop: &str, seed: u64, n: u64) -> Vec<Job> {
    (0..n)
        .map(|k| {
            let mut j = Job::new(
                &format!("miri-seq-{}", k),
                "cargo",
                sv(&["+nightly", "miri", "run", "--offline", "--target-dir", "/verif/target/miri", "--", "seq", "--prop", prop, "--seed", &seed.to_string(), "--from", &(3_000_000 + k * 5).to_string(), "--count", "5"]),
            );
            j.cwd = Some("/verif/harness".into());
            j.env.push(("MIRIFLAGS".into(), format!("-Zmiri-disable-isolation -Zmiri-ignore-leaks -Zmiri-seed={}", seed * 100 + k)));
            j.env.push(("CARGO_NET_OFFLINE".into(), "true".into()));
            j.timeout_s = 900;
            j.death = Death::Inconclusive;
            j.report_codes = vec![1];
            j
        })
        .collect()
}

fn miri_jobs(prop: &str, seed: u64, fam: &str, n: u64, ops: u64) -> Vec<Job> {
    (0..n)
        .map(|k| {
            let mut j = Job::new(
                &format!("miri-{}-{}", fam, k),
                "cargo",
                sv(&["+nightly", "miri", "run", "--offline", "--target-dir", "/verif/target/miri", "--", "free", "--prop", prop, "--seed", &seed.to_string(), "--family", fam, "--from", &(k * 3).to_string(), "--count", "3", "--ops", &ops.to_string(), "--threads", "3", "--run-deadline", "200"]),
            );
            j.cwd = Some("/verif/harness".into());
            j.env.push(("MIRIFLAGS".into(), format!("-Zmiri-disable-isolation -Zmiri-ignore-leaks -Zmiri-seed={} -Zmiri-preemption-rate={}", seed * 1000 + k, if k % 2 == 0 { "0.05" } else { "0.01" })));
            j.env.push(("CARGO_NET_OFFLINE".into(), "true".into()));
            j.timeout_s = 420;
            j.death = Death::Inconclusive;
            j.report_codes = vec![1];
            j.sig_suffix = format!(":family-{}", fam);
            j
        })
        .collect()
}

const SCHED_RULE: &str = "run r = generator(seed, r): configuration (freelist kind x layout x min segment size x capacity 256..1024 x retries x 2..4 threads x single-threaded prelude building a free list of 0..6 segments with 0..64 bytes of fresh space left) + one generated program per thread (alloc bytes/aligned/typed, borrowed and owned, fill, drop, detach, leak, clone/drop arena, discard_freelist, send/receive owned buffers) executed under the hook-serialised scheduler with a strategy in {random switching p=5/30/70%, PCT d=1..3, window sweep: park thread t at atomic event k of operation j until the others finish or spin}, optional spurious compare_exchange_weak failures; family A = byte allocations only, family B = typed and aligned allocations too, family T = 3..4 threads fighting for the last 16..48 bytes of fresh space (release-on-top keeps giving them back), family F = 2..4 threads on fresh space only, 1..5-byte allocations changing the cursor's residue while others make aligned/typed allocations (lost CAS + retry), family P = 3..4 threads taking and giving back segments of five neighbouring sizes with no fresh space (colliding removals of adjacent nodes, failed unlinks, re-insertions; one run in four also calls discard_freelist from every thread); distinct_nontrivial = distinct hashes of the schedule (sequence of thread choices) of runs with at least one preemption";

fn seq_rule(prop: &str) -> String {
    let nt = match prop {
        "C01" => "at least one allocation served from a recycled free-list segment while two or more other allocations were live",
        "C03" => "at least one typed/aligned allocation from a recycled segment and one from fresh space at a cursor that needed padding",
        "C05" => "at least one close+reopen while the free list was non-empty and detached live ranges existed",
        "C08" => "at least one alloc_bytes zero-check on reused space (recycled / top-released / rewound / reopened) that held non-zero bytes just before the call",
        "C10" => "at least one slow-path allocation decided against a free list of two or more segments",
        "C11" => "both flavours ran the history in lock-step and it reached the slow path",
        "C13" => "owned handles and arena clones were created and dropped in a random order",
        "C16" => "the history ran on more than one backend / runner in lock-step",
        "C17" => "rewind or clear executed while the free list was non-empty",
        "C18" => "truncate executed with a non-empty free list or detached live data",
        "C20" => "discard_freelist on a non-empty list or a release too small to become a segment",
        _ => "reached the slow path",
    };
    format!(
        "history i = generator(seed, i): sampled configuration (flavour x freelist x backend x unify x reserved x min segment size x max alignment x capacity x retries, covering schedule) + 50..400 state-dependent operations, every step checked by the shadow map, the sequential reference model and lock-step differential runners; a history counts as non-trivial when {}; distinct = distinct hashes of the executed operation log",
        nt
    )
}

pub fn plan(prop: &str, tier: &str, seed: u64) -> Option<Plan> {
    let quick = tier != "thorough";
    let mut p = Plan {
        level: "exploration",
        rule: String::new(),
        assumptions: vec![],
        jobs: vec![],
        eval_counter: "histories",
        required_nonzero: vec![],
        min_eval: 50,
        min_distinct: 10,
        extra_prefixes: vec![],
        exhaustive: false,
        par: CORES,
    };
    match prop {
        "C01" | "C03" | "C05" | "C08" | "C10" | "C11" | "C13" | "C16" | "C17" | "C18" | "C20" => {
            p.rule = seq_rule(prop);
            let (n_rel, secs) = if quick { (3000, 30) } else { (400000, 600) };
            p.jobs = seq_jobs(prop, seed, "rel", 12, n_rel, secs, 0);
            // overflow-checked build: arena panics become observable events
            p.jobs.extend(seq_jobs(prop, seed, "dbg", 4, n_rel / 4, secs, 1_000_000));
            if !quick && matches!(prop, "C01" | "C03" | "C08" | "C13") {
                // Miri: provenance / alignment / uninitialised reads on the single-threaded paths (Vec backend only)
                p.jobs.extend(miri_seq_jobs(prop, seed, 6));
            }
            if prop == "C03" {
                // capacity / alignment under concurrency (lost-CAS retry paths of the fresh-space allocations)
                p.jobs.extend(sched_jobs(prop, seed, "F", if quick { 3 } else { 6 }, if quick { 6000 } else { 300000 }, if quick { 25 } else { 600 }, false));
                p.jobs.extend(sched_jobs(prop, seed, "B", 2, if quick { 3000 } else { 100000 }, if quick { 25 } else { 600 }, false));
            }
            if prop == "C16" {
                // static part: reserved 0..=4096 exhaustively, capacity around the prefix
                for k in 0..4u64 {
                    let lo = k * 1025;
                    let hi = (lo + 1024).min(4096);
                    let mut j = Job::new(&format!("layout-{}", k), &bin(if k == 3 { "dbg" } else { "rel" }), sv(&["layout", "--from", &lo.to_string(), "--to", &hi.to_string()]));
                    j.timeout_s = 900;
                    p.jobs.push(j);
                }
            }
            if prop == "C18" {
                // read-only part of the statement: truncate(n) fails without effect for every n
                for variant in ["rel", "dbg"] {
                    let mut j = Job::new(&format!("files-t-{}", variant), &bin(variant), sv(&["files", "--seed", &seed.to_string(), "--part", "t", "--files", if quick { "6" } else { "48" }]));
                    j.timeout_s = 600;
                    p.jobs.push(j);
                }
            }
            if prop == "C08" {
                // zero-fill on a file reopened after a crash (a slice of the C06 crash-point sweep; its C08-tagged reports count here)
                for k in 0..2u64 {
                    let mut j = Job::new(&format!("crash-c08-{}", k), &bin("rel"), sv(&["crash", "--seed", &seed.to_string(), "--from", &k.to_string(), "--stride", "2", "--count", if quick { "12" } else { "600" }, "--secs", if quick { "25" } else { "600" }]));
                    j.timeout_s = if quick { 200 } else { 2000 };
                    p.jobs.push(j);
                }
                // zero-fill under concurrency: a recycled segment must be zeroed by the time any thread gets it
                p.jobs.extend(sched_jobs(prop, seed, "A", 2, if quick { 3000 } else { 150000 }, if quick { 25 } else { 600 }, false));
                p.jobs.extend(sched_jobs(prop, seed, "P", 2, if quick { 3000 } else { 150000 }, if quick { 25 } else { 600 }, false));
            }
            if prop == "C13" {
                // multi-threaded part: refs() accounting, clone/drop/send of owned buffers under the scheduler
                p.jobs.extend(sched_jobs(prop, seed, "A", 2, if quick { 1500 } else { 100000 }, if quick { 25 } else { 600 }, false));
                p.jobs.extend(sched_jobs(prop, seed, "B", 2, if quick { 1500 } else { 100000 }, if quick { 25 } else { 600 }, false));
                if !quick && have("asan") {
                    // leak / invalid-free second opinion (address-remembering monitors off)
                    let mut a = free_jobs(prop, seed, "asan", "A", 4, 3000, 300);
                    for j in a.iter_mut() {
                        j.env.retain(|e| e.0 != "ASAN_OPTIONS");
                        j.env.push(("ASAN_OPTIONS".into(), "detect_leaks=0:halt_on_error=1:exitcode=67".into()));
                        j.env.push(("VH_NO_WATCH".into(), "1".into()));
                    }
                    p.jobs.extend(a);
                }
            }
            if !quick && have("asan") {
                let mut a = seq_jobs(prop, seed, "asan", 4, 20000, 300, 2_000_000);
                for j in a.iter_mut() {
                    j.env.push(("ASAN_OPTIONS".into(), "detect_leaks=0:halt_on_error=1:abort_on_error=0:exitcode=67".into()));
                    j.env.push(("VH_NO_WATCH".into(), "1".into()));
                    j.report_codes = vec![67];
                }
                p.jobs.extend(a);
            }
            p.assumptions = vec![
                "the reference model states only what the property text and README state; unspecified quantities are adopted from the implementation".into(),
                "histories keep to the documented safety contracts of the unsafe calls (dealloc of ranges returned by the arena, no use of handles above a rewound cursor)".into(),
                "sampled, not enumerated: only executed histories are judged".into(),
                "non-termination of a single-threaded call is judged by a logical budget of 3,000,000 atomic accesses per operation (measured legal maximum reported under maxima), not by a clock; unsync::Arena performs no atomic accesses, so a hang there is only caught by the wall-clock watchdog (inconclusive)".into(),
            ];
            p.extra_prefixes = vec!["axis.", "c01_", "c03_", "c05_", "c08_", "c09_", "c10_", "c13_", "c16_", "c17_", "c18_", "c20_", "release.", "alloc_err."];
            p.required_nonzero = match prop {
                "C01" => sv(&["release.insert", "c10_slow_path_policy_checks"]),
                "C03" => sv(&["c03_capacity_alignment_checks", "c03_recycled_typed", "c03_fresh_padded", "zero_size_requests", "c03_address_checks", "c03_concurrent_checks"]),
                "C05" => sv(&["c05_reopen_checks.MapMut", "c05_reopen_checks.MapCopy", "c05_reopen_checks.Map", "c05_reopen_checks.MapCopyRo"]),
                "C08" => sv(&["c08_zero_checks_on_dirty_space.recycled", "c08_zero_checks_on_dirty_space.top-released", "c08_zero_checks_on_dirty_space.rewound", "c08_zero_checks.fresh", "c08_zero_checks.fresh-after-reopen", "c08_concurrent_zero_checks_on_recycled_segments", "c08_zero_checks_after_crash_recovery"]),
                "C10" => sv(&["c10_slow_path_policy_checks", "c10_split_remainders", "c10_whole_segment"]),
                "C11" => sv(&["c10_slow_path_policy_checks"]),
                "C13" => sv(&["c13_release_effect_checks", "c13_detach_checks", "c13_value_drop_checks", "c13_zero_sized_value_drop_checks", "c13_backing_checks", "c13_teardowns_of_read_only_sessions", "original_arena_dropped_first", "refs_checks", "spurious_cas_failures_injected"]),
                "C16" => sv(&["c16_accessor_tables_checked", "c16_first_allocation_checks", "c16_static_cases", "c16_construction_refusals", "c16_reopen_capacity_refusals"]),
                "C17" => sv(&["c17_rewind_checks", "c17_clear_checks", "c17_fresh_twins_started"]),
                "C18" => sv(&["c18_truncate_checks", "c18_readonly_truncate_checks", "c18_readonly_truncate_checks_where_the_call_would_be_a_no_op"]),
                "C20" => sv(&["c20_discard_delta_checks", "c20_discard_freelist_nonempty", "c20_increase_discarded_checks"]),
                _ => vec![],
            };
        }
        "C14" => {
            p.eval_counter = "c14_cases";
            p.min_eval = 10000;
            p.min_distinct = 20;
            p.rule = "case = (buffer kind in {fresh, recycled with offset != buffer_offset, aligned with padding, flush at the arena end} x capacity x arena flavour x handle kind) x fill level x call (put/put_unchecked/write/get for 12 integer types x 3 byte orders, u8/i8, put_slice of every length 0..cap+2, io::Write, set_len to every length, 8 varint put/get pairs, align_to / put / put_aligned for 6 layouts) x 5 values; the type x order x fill matrix is enumerated completely for capacities 0..40, larger capacities are sampled; oracle = return value, len(), and a whole-arena byte image before/after each call; distinct_nontrivial = distinct (kind, capacity, flavour) buffers whose full matrix was executed".into();
            let mk = |label: &str, variant: &str, extra: &[&str]| {
                let mut a = sv(&["bufs", "--seed", &seed.to_string()]);
                a.extend(sv(extra));
                let mut j = Job::new(label, &bin(variant), a);
                j.timeout_s = 900;
                j
            };
            for (i, (lo, hi)) in [(0, 16), (17, 26), (27, 33), (34, 40)].iter().enumerate() {
                p.jobs.push(mk(&format!("bufs-rel-{}", i), "rel", &["--cap", &lo.to_string(), "--cap-to", &hi.to_string()]));
            }
            p.jobs.push(mk("bufs-rel-end", "rel", &["--kind", "EndFlush", "--cap", "0", "--cap-to", "40"]));
            p.jobs.push(mk("bufs-rel-big", "rel", &["--cap", "41", "--cap-to", "41", "--random-caps", if quick { "6" } else { "60" }]));
            p.jobs.push(mk("bufs-dbg", "dbg", &["--cap", "0", "--cap-to", if quick { "12" } else { "40" }, "--thin"]));
            p.jobs.push(mk("bufs-dbg-end", "dbg", &["--kind", "EndFlush", "--cap", "0", "--cap-to", if quick { "12" } else { "40" }, "--thin"]));
            if !quick && have("asan") {
                for extra in [vec!["--cap", "0", "--cap-to", "40"], vec!["--kind", "EndFlush", "--cap", "0", "--cap-to", "40"]] {
                    let mut j = mk("bufs-asan", "asan", &extra);
                    j.env.push(("ASAN_OPTIONS".into(), "detect_leaks=0:halt_on_error=1:exitcode=67".into()));
                    j.report_codes = vec![67];
                    p.jobs.push(j);
                }
            }
            p.required_nonzero = sv(&["c14_roundtrips", "c14_refusals", "c14_varint_roundtrips", "c14_varint_fill_ok", "c14_align_ok", "c14_put_aligned_ok"]);
            p.extra_prefixes = vec!["c14_"];
            p.assumptions = vec![
                "bytes inside the buffer after a refused varint put are not asserted (the statement promises unchanged bytes only for fixed-width puts)".into(),
                "address alignment of align_to is asserted for alignments <= 8 (the arena's base alignment); offset alignment always".into(),
                "writes past the end of the backing store are only visible to the ASan run (thorough) and as a crash of the flush-at-end child".into(),
            ];
        }
        "C15" => {
            p.eval_counter = "c15_cases";
            p.min_eval = 10000;
            p.min_distinct = 8;
            p.rule = "case = (arena: flavour x layout x reserved x capacity 64..520 x fill state, data area above the cursor pre-filled with non-zero continuation bytes) x reader (get_u8/i8, 16 fixed-width be/le readers, 8 varint readers) x offset; every offset 0..=capacity+16 is enumerated, plus usize::MAX-k, isize::MAX+-k, u32::MAX+-k, 2^31+-k, 2^63-k for k<=16; oracle = reference decode of a private copy of memory() (own LEB128 decoder restricted to the bytes below allocated()); distinct_nontrivial = distinct (arena, fill state, flavour, sweep kind) combinations swept".into();
            for (variant, n) in [("rel", if quick { 96 } else { 400 }), ("dbg", if quick { 24 } else { 100 })] {
                for ext in [false, true] {
                    let mut a = sv(&["readers", "--seed", &seed.to_string(), "--arenas", &n.to_string()]);
                    if ext {
                        a.push("--extreme".into());
                    }
                    let mut j = Job::new(&format!("readers-{}-{}", variant, if ext { "extreme" } else { "sweep" }), &bin(variant), a);
                    j.timeout_s = 900;
                    p.jobs.push(j);
                }
            }
            if !quick && have("asan") {
                for ext in [false, true] {
                    let mut a = sv(&["readers", "--seed", &seed.to_string(), "--arenas", "60"]);
                    if ext {
                        a.push("--extreme".into());
                    }
                    let mut j = Job::new("readers-asan", &bin("asan"), a);
                    j.env.push(("ASAN_OPTIONS".into(), "detect_leaks=0:halt_on_error=1:exitcode=67".into()));
                    j.report_codes = vec![67];
                    j.timeout_s = 900;
                    p.jobs.push(j);
                }
            }
            p.required_nonzero = sv(&["c15_values_checked", "c15_out_of_bounds_refusals", "c15_truncated_varints_refused", "c15_slice_length_checks", "c15_slice_length_checks_on_cleared_arenas"]);
            p.extra_prefixes = vec!["c15_"];
            p.assumptions = vec!["the reference LEB128 decoder (base-128, zig-zag for signed) is the harness' own".into(), "a reader that dies (signal) on an extreme offset is reported through the child's exit status".into()];
        }
        "C19" => {
            p.eval_counter = "c19_cases";
            p.min_eval = 500;
            p.min_distinct = 100;
            p.exhaustive = !quick;
            p.rule = "case = (allocated length, reserved length in {0,1,7,8,9,31,32,63,64}, layout, flavour, Vec/anon backend) with random contents incl. the prefix; quick: page multiples +-2 (also shifted by reserved) and 200 random lengths; thorough: every allocated length 0..=3 pages+1; oracle: checksum(builder) == builder.checksum_one(allocated_memory()[reserved..]) for Crc32 and for a position-dependent streaming hash that also records the chunk lengths (sum must equal the reference length); distinct_nontrivial = distinct (length, reserved, layout, flavour)".into();
            if quick {
                let mut j = Job::new("cksum-rel", &bin("rel"), sv(&["cksum", "--seed", &seed.to_string(), "--random", "1500"]));
                j.timeout_s = 600;
                p.jobs.push(j);
                let mut j = Job::new("cksum-dbg", &bin("dbg"), sv(&["cksum", "--seed", &(seed + 1).to_string(), "--random", "50"]));
                j.timeout_s = 600;
                p.jobs.push(j);
            } else {
                for k in 0..12u64 {
                    let lo = k * 1025;
                    let hi = (lo + 1024).min(3 * 4096 + 1);
                    let mut j = Job::new(&format!("cksum-rel-{}", k), &bin("rel"), sv(&["cksum", "--seed", &seed.to_string(), "--lens", "all", "--from", &lo.to_string(), "--to", &hi.to_string()]));
                    j.timeout_s = 1800;
                    p.jobs.push(j);
                }
                let mut j = Job::new("cksum-dbg", &bin("dbg"), sv(&["cksum", "--seed", &(seed + 1).to_string(), "--random", "400"]));
                j.timeout_s = 1800;
                p.jobs.push(j);
            }
            p.required_nonzero = sv(&["c19_multi_chunk_cases"]);
            p.extra_prefixes = vec!["c19_"];
            p.assumptions = vec!["page size 4096 (the only one on this machine)".into()];
        }
        "C04" => {
            p.eval_counter = "c04_cases";
            p.min_eval = 5000;
            p.min_distinct = 1000;
            p.rule = "case = (sampled configuration: flavour x freelist x Vec/anon x layout x reserved x min segment size) x arena state (empty, half full, full, full with a multi-segment free list and live neighbours, after rewind, file-backed and reopened read-only with map / map_copy_read_only; thorough: 4 GiB arenas with the cursor at / 40 bytes below a capacity next to u32::MAX) x call (alloc_bytes, alloc_bytes_owned, alloc_aligned_bytes::<T>(extra) for 7 layouts, alloc::<T>/alloc_owned::<T> for all 16 layouts) x size (boundary-dense around remaining(), capacity, segment sizes, 2^31, u32::MAX - allocated, u32::MAX - capacity, u32::MAX, plus random u32); each case runs on a freshly built arena in an isolated child, in an overflow-checked and an unchecked build; oracle: Err => error kind + (allocated, discarded, remaining, free list) unchanged; Ok => handle inside [data_offset, allocated) within capacity, capacity/alignment as requested, no overlap with live ranges, zero-filled for alloc_bytes, live bytes unchanged; panic / signal => violation attributed through the AT marker; distinct_nontrivial = distinct (configuration, state, call kind, size)".into();
            let shards = if quick { 6 } else { 12 };
            for variant in ["rel", "dbg"] {
                for k in 0..shards {
                    let mut j = Job::new(&format!("iso-c04-{}-{}", variant, k), &bin(variant), sv(&["iso-c04", "--seed", &seed.to_string(), "--cfgs", if quick { "60" } else { "240" }, "--shard", &k.to_string(), "--shards", &shards.to_string()]));
                    j.timeout_s = if quick { 300 } else { 1800 };
                    p.jobs.push(j);
                }
            }
            if !quick {
                let mut j = Job::new("iso-c04-huge", &bin("rel"), sv(&["iso-c04", "--seed", &seed.to_string(), "--huge"]));
                j.timeout_s = 1500;
                p.jobs.push(j);
                if have("asan") {
                    for k in 0..4 {
                        let mut j = Job::new(&format!("iso-c04-asan-{}", k), &bin("asan"), sv(&["iso-c04", "--seed", &seed.to_string(), "--cfgs", "36", "--shard", &k.to_string(), "--shards", "4"]));
                        j.env.push(("ASAN_OPTIONS".into(), "detect_leaks=0:halt_on_error=1:exitcode=67:allocator_may_return_null=1".into()));
                        j.env.push(("VH_NO_WATCH".into(), "1".into()));
                        j.report_codes = vec![67];
                        j.timeout_s = 1800;
                        p.jobs.push(j);
                    }
                }
            }
            p.required_nonzero = sv(&["c04_successes", "c04_unchanged_after_error_checks", "c04_read_only_refusals"]);
            p.extra_prefixes = vec!["c04_"];
            p.assumptions = vec!["reads/writes outside the backing store are visible as signals, ASan reports (thorough) or corrupted neighbours".into()];
        }
        "C09" => {
            p.eval_counter = "c09_open_attempts";
            p.min_eval = 1000;
            p.min_distinct = 4;
            p.rule = "part A: valid arena files (both flavours, three freelist kinds, reserved 0..16, non-zero bytes above the cursor) are mutated — each of the 8 identification bytes set to each of 256 values (thorough: x all 4 open variants; quick: a covering subset), truncation to every length 0..=prefix+8, arbitrary-byte files — and the unmodified file is opened with every (variant x expected freelist x expected magic version x capacity option); oracle = 20-line reference of the identification rule for the verdict + byte comparison of the file before/after every refused (and every read-only / private) open; part B: every mutating call of the safe API (+ clear, truncate) on arenas opened with map / map_copy_read_only must return ReadOnly or panic with the documented message, leave allocated/discarded/min segment size/free list and the file bytes unchanged; a crash of the child is a violation; distinct_nontrivial = distinct seed files x sweeps + read-only sessions".into();
            let nfiles = if quick { "12" } else { "24" };
            for variant in ["rel", "dbg"] {
                let mut a = sv(&["files", "--seed", &seed.to_string(), "--part", "a", "--files", if variant == "dbg" { "2" } else { nfiles }]);
                if !quick && variant == "rel" {
                    a.push("--thorough".into());
                }
                let mut j = Job::new(&format!("files-a-{}", variant), &bin(variant), a);
                j.timeout_s = 1800;
                p.jobs.push(j);
                for mode in ["Map", "MapCopyRo"] {
                    for fl in ["sync", "unsync"] {
                        let mut j = Job::new(&format!("files-b-{}-{}-{}", variant, mode, fl), &bin(variant), sv(&["files", "--seed", &seed.to_string(), "--part", "b", "--mode", mode, "--flavour", fl, "--files", "3"]));
                        j.timeout_s = 600;
                        p.jobs.push(j);
                    }
                }
            }
            p.required_nonzero = sv(&["c09_refused_open_file_compares", "c09_readonly_file_compares", "c09_readonly_errors", "c09_readonly_documented_panics", "c09_id_byte_sweeps", "c09_truncation_sweeps"]);
            p.extra_prefixes = vec!["c09_"];
            p.assumptions = vec![
                "a read-only open does not state a freelist kind (it is taken from the file), so a kind mismatch is asserted for writable opens only".into(),
                "growth of the file by zero bytes through an explicit capacity on a refused open is tolerated and counted".into(),
                "truncations that keep a valid header but cut below the stored cursor are outside the statement".into(),
                "remove_on_drop is documented to delete even read-only files and is checked under C13".into(),
            ];
        }
        "C02" | "C07" | "C12" => {
            p.eval_counter = "runs";
            p.min_eval = 200;
            p.min_distinct = 100;
            p.rule = SCHED_RULE.to_string();
            let (count, secs) = if quick { (6000, 30) } else { (400000, 900) };
            p.jobs.extend(sched_jobs(prop, seed, "A", 6, count, secs, false));
            p.jobs.extend(sched_jobs(prop, seed, "B", 6, count, secs, false));
            p.jobs.extend(sched_jobs(prop, seed, "T", 6, if quick { 9000 } else { 400000 }, secs, false));
            p.jobs.extend(sched_jobs(prop, seed, "P", if quick { 3 } else { 6 }, if quick { 9000 } else { 600000 }, secs, false));
            p.jobs.extend(sched_jobs(prop, seed, "F", 2, if quick { 6000 } else { 300000 }, secs, false));
            p.jobs.extend(sched_jobs(prop, seed + 7, "A", 2, count / 8, secs, true));
            p.jobs.extend(sched_jobs(prop, seed + 7, "B", 2, count / 8, secs, true));
            match prop {
                "C02" => {
                    p.rule.push_str("; monitors: shadow map at every alloc return (overlap, data area), pattern check of every live range at every operation boundary of any thread, trace rule (no atomic write / zeroing by the arena inside a range that is live for another owner), free-list vs live ranges at quiescence; thorough adds free-running runs under ASan and TSan and Miri seeds");
                    p.required_nonzero = sv(&["intact_checks", "trace_rule_checks", "preemptions", "family.A", "family.B", "window_sweep_runs"]);
                    if !quick {
                        if have("asan") {
                            p.jobs.extend(free_jobs(prop, seed, "asan", "A", 4, 4000, 600));
                            p.jobs.extend(free_jobs(prop, seed, "asan", "B", 4, 4000, 600));
                        }
                        if have("tsan") {
                            p.jobs.extend(free_jobs(prop, seed, "tsan", "A", 4, 4000, 600));
                            p.jobs.extend(free_jobs(prop, seed, "tsan", "B", 4, 4000, 600));
                        }
                        p.jobs.extend(miri_jobs(prop, seed, "A", 8, 16));
                        p.jobs.extend(miri_jobs(prop, seed, "B", 8, 16));
                    } else {
                        p.jobs.extend(free_jobs(prop, seed, "rel", "A", 1, 600, 20));
                        p.jobs.extend(free_jobs(prop, seed, "rel", "B", 1, 600, 20));
                    }
                }
                "C07" => {
                    // single-threaded histories: a call that polls for ever without any other thread (step budget of the E-SEQ hook)
                    p.jobs.extend(seq_jobs(prop, seed, "rel", 4, if quick { 1500 } else { 100000 }, if quick { 25 } else { 600 }, 0));
                    p.rule.push_str("; monitor M-progress (bounded-progress restatement): a thread that performs K=300 atomic accesses with no successful write by anybody is descheduled in favour of the others; violation = every unfinished thread has performed more than B = (maximum_retries+1) x (capacity/8+2) x 8 accesses since the last successful write in the whole system; also: no node marked as removed may be linked at quiescence; the largest number of accesses without progress seen in calls that did complete is reported next to B");
                    p.required_nonzero = sv(&["preemptions", "events", "freelist.optimistic", "freelist.pessimistic", "window_sweep_runs"]);
                    p.assumptions.push("decides bounded progress under a fair scheduler (spinning threads yield); unbounded liveness and starvation under unfair schedules are not decidable by any finite run".into());
                    p.jobs.extend(free_jobs(prop, seed, "rel", "A", 2, if quick { 1500 } else { 60000 }, if quick { 20 } else { 600 }));
                }
                _ => {
                    p.rule.push_str("; monitors: M-hb vector clocks built from the orderings the code passes to its atomics (C++20 release sequences; SeqCst = AcqRel), checked at every zeroing event and every hand-out against the clock the releasing thread had when it called drop, and at the backing-store free against every other thread's last access; trace rule for atomic reads/writes of user data; plus ThreadSanitizer on free-running threads with plain user accesses and Miri (data-race detector with weak-memory emulation) on small programs");
                    p.required_nonzero = sv(&["handover_checks", "final_free_checks", "preemptions", "family.A", "family.B"]);
                    if have("tsan") {
                        p.jobs.extend(free_jobs(prop, seed, "tsan", "A", if quick { 2 } else { 8 }, if quick { 400 } else { 20000 }, if quick { 30 } else { 900 }));
                        p.jobs.extend(free_jobs(prop, seed, "tsan", "B", if quick { 2 } else { 8 }, if quick { 400 } else { 20000 }, if quick { 30 } else { 900 }));
                    }
                    p.jobs.extend(miri_jobs(prop, seed, "A", if quick { 3 } else { 16 }, 14));
                    p.jobs.extend(miri_jobs(prop, seed, "B", if quick { 3 } else { 16 }, 14));
                    p.assumptions.push("M-hb is exact for the serialised (sequentially consistent) executions the scheduler produces; genuinely weak behaviours are only sampled by Miri".into());
                    p.assumptions.push("a watchdog kill of a free-running child is inconclusive, never a race".into());
                }
            }
            p.assumptions.push("schedules are sampled (random, PCT depth <= 3, window sweep), not enumerated".into());
            p.extra_prefixes = vec!["family.", "freelist.", "threads.", "strategy.", "window."];
        }
        "C06" => {
            p.level = "fault_enumeration";
            p.eval_counter = "c06_crash_points";
            p.min_eval = 500;
            p.min_distinct = 50;
            p.rule = "history h = generator(seed, h): writable file-backed arena (freelist kind x reserved x min segment size x capacity), prelude that builds a free list with live detached neighbours and 0..100 bytes of fresh space, then 4..10 operations under test (alloc_bytes on fast and slow path, alloc::<T>, alloc_aligned_bytes::<T>(extra), dealloc of a live range: on top / insert / too small, discard_freelist, set_minimum_segment_size, increase_discarded, clear); for each operation EVERY crash point is enumerated: memory() is copied inside the `before` callback of every atomic access of the operation and once after its last event (unsync::Arena: operation boundaries), each image is written to a fresh file, reopened with map_mut (same flavour, every 4th also the other flavour) and put through the recovery oracle: open succeeds, cursor within [data_offset, capacity], every range returned before and not released before the crash holds its pattern, lies below the reopened cursor and intersects no segment of the reopened free list, an allocation storm (byte, typed and aligned requests, some given back) under a step budget of 20000 atomic accesses per call terminates and never returns a range intersecting them (the in-flight range is don't-care); a sample of crash points is replayed by a child process that really abort()s inside the same callback and whose file must equal the snapshot; distinct_nontrivial = distinct (operation kind, event index, access kind, call site) crash-point classes".into();
            let (count, secs) = if quick { (24, 45) } else { (4000, 1200) };
            for k in 0..12u64 {
                let mut j = Job::new(&format!("crash-{}", k), &bin("rel"), sv(&["crash", "--seed", &seed.to_string(), "--from", &k.to_string(), "--stride", "12", "--count", &count.to_string(), "--secs", &secs.to_string()]));
                j.timeout_s = secs * 3 + 120;
                p.jobs.push(j);
            }
            p.required_nonzero = sv(&["c06_images_reopened", "c06_recovery_storms_completed", "c06_abort_validations", "c06_points.alloc_bytes", "c06_points.dealloc", "c06_points.discard_freelist", "c06_points.alloc_typed", "c06_points.alloc_aligned", "c06_freelist_vs_live_checks"]);
            p.extra_prefixes = vec!["c06_"];
            p.assumptions = vec![
                "process death, not power loss: the crash image is what the page cache holds (validated against real abort()ed children on a sample)".into(),
                "single-threaded histories as the property quantifies; the crash points of one operation are enumerated exhaustively, histories are sampled".into(),
                "non-termination is judged by a logical step budget, not by wall-clock time".into(),
            ];
        }
        _ => return None,
    }
    Some(p)
}

pub fn main(args: &Args) -> i32 {
    if let Some(path) = args.kv.get("replay") {
        return replay(path);
    }
    let Some(prop) = args.pos.first().cloned() else {
        eprintln!("usage: vh drive <ID> --tier quick|thorough");
        return 3;
    };
    let tier = args.str("tier", &std::env::var("VERIF_TIER").unwrap_or_else(|_| "quick".into()));
    let tier = if tier == "thorough" { "thorough" } else { "quick" };
    let seed = args.u64("seed", std::env::var("VERIF_SEED").ok().and_then(|s| s.parse().ok()).unwrap_or(1));
    let Some(p) = plan(&prop, tier, seed) else {
        eprintln!("no plan for property {}", prop);
        return 3;
    };
    let t0 = Instant::now();
    let m = run_jobs(p.jobs.clone(), p.par, &prop);
    let mut extra: Vec<(String, J)> = vec![];
    extra.push(("steps".into(), J::Int(m.c("steps") as i128)));
    for k in ["c03_concurrent_checks", "c08_concurrent_zero_checks", "c08_concurrent_zero_checks_on_recycled_segments", "events", "preemptions", "intact_checks", "trace_rule_checks", "handover_checks", "final_free_checks", "refs_checks", "hang_verdicts", "window_sweep_runs", "spurious_cas_failures_injected", "watchdog_hang_sightings", "allocations", "pattern_verifications", "recycled_allocations", "cross_thread_transfers"] {
        if m.cnt.contains_key(k) {
            extra.push((k.to_string(), J::Int(m.c(k) as i128)));
        }
    }
    for pre in &p.extra_prefixes {
        let j = m.cnt_prefix(pre);
        if let J::Obj(o) = &j {
            if !o.is_empty() {
                extra.push((format!("counters:{}", pre.trim_end_matches(['.', '_'])), j));
            }
        }
    }
    extra.push(("model_divergences".into(), J::Int(m.c("model_divergence") as i128)));
    extra.push(("harness_panics".into(), J::Int(m.c("harness_panics") as i128)));
    extra.push(("maxima".into(), J::Obj(m.max.iter().map(|(k, v)| (k.clone(), J::Int(*v as i128))).collect())));
    let spec = EvidenceSpec {
        prop: prop.clone(),
        tier: tier.to_string(),
        seed,
        level: p.level.to_string(),
        rule: p.rule.clone(),
        evaluations: {
            // every kind of case whose hash can enter distinct_nontrivial is counted
            let mut e = m.c(p.eval_counter);
            if p.eval_counter != "runs" {
                e += m.c("runs");
            } else {
                e += m.c("histories");
            }
            if prop == "C16" {
                e += m.c("c16_static_cases") + m.c("c16_reopen_capacity_cases");
            }
            if prop == "C08" {
                e += m.c("c06_crash_points");
            }
            if prop == "C18" {
                e += m.c("c18_readonly_truncate_checks");
            }
            e
        },
        extra,
        assumptions: p.assumptions.clone(),
        min_eval: p.min_eval,
        min_distinct: p.min_distinct,
        required_nonzero: p.required_nonzero.clone(),
        wall_s: t0.elapsed().as_secs_f64(),
        exhaustive: p.exhaustive,
    };
    finish(spec, &m)
}

fn replay(path: &str) -> i32 {
    let Ok(s) = std::fs::read_to_string(path) else {
        eprintln!("cannot read {}", path);
        return 3;
    };
    let Ok(j) = json::parse(&s) else {
        eprintln!("cannot parse {}", path);
        return 3;
    };
    let prop = j.get("property").and_then(|x| x.as_str()).unwrap_or("").to_string();
    // prefer the precise per-case args recorded by the child
    let argv: Vec<String> = if let Some(a) = j.get("detail").and_then(|d| d.get("replay_args")).and_then(|x| x.as_str()) {
        a.split_whitespace().map(|s| s.to_string()).collect()
    } else {
        j.get("argv").and_then(|a| a.as_arr()).map(|a| a.iter().filter_map(|x| x.as_str().map(|s| s.to_string())).collect()).unwrap_or_default()
    };
    if argv.is_empty() {
        eprintln!("replay file has no argv");
        return 3;
    }
    let variant = if j.get("job").and_then(|x| x.as_str()).unwrap_or("").contains("dbg") { "dbg" } else { "rel" };
    println!("replaying: {} {}", bin(variant), argv.join(" "));
    let mut job = Job::new("replay", &bin(variant), argv);
    job.timeout_s = 600;
    let r = run_one(&job);
    let mut hit = false;
    for l in r.stdout.lines() {
        if l.starts_with("VIOL ") {
            let mut it = l.splitn(4, ' ');
            it.next();
            let p = it.next().unwrap_or("");
            let sig = it.next().unwrap_or("");
            if p == prop {
                hit = true;
                println!("VIOLATION property={} replay={}", prop, path);
                println!("  signature: {}", sig);
            }
        }
    }
    if !r.stderr.trim().is_empty() {
        println!("{}", r.stderr.lines().rev().take(20).collect::<Vec<_>>().into_iter().rev().collect::<Vec<_>>().join("\n"));
    }
    if hit {
        1
    } else {
        println!("replay did not reproduce a violation of {}", prop);
        0
    }
}
