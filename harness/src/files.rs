//! C09: opening validates the file; refused and read-only opens never alter it.

use crate::arena::*;
use crate::out::Out;
use crate::util::json::J;
use crate::util::rng::{mix, Rng};
use crate::Args;
#[allow(unused_imports)]
use rarena_allocator::{sync, unsync, Allocator, ArenaPosition, Error, Freelist, Options};

struct Seed {
    path: String,
    cfg: Cfg,
    bytes: Vec<u8>,
}

fn make_valid<A: VArena>(rng: &mut Rng, k: u64, flavour: Flavour) -> Seed {
    let reserved = *rng.pick(&[0u32, 1, 5, 8, 9, 16]);
    let fl = match k % 3 {
        0 => FL::Optimistic,
        1 => FL::Pessimistic,
        _ => FL::None,
    };
    let mut cfg = Cfg { flavour, backend: Backend::File, freelist: fl, unify: true, reserved, min_seg: 8, max_align: 8, cap: 0, retries: 5, magic: (k % 3) as u16 + 1, file_offset: 0, path: None };
    cfg.cap = cfg.prefix() + 200 + rng.below(300) as u32;
    let path = format!("{}/c09-{}-{:?}.arena", tmp_dir(), k, flavour);
    cfg.path = Some(path.clone());
    {
        let a: A = create::<A>(&cfg).expect("create");
        if reserved > 0 {
            let s = unsafe { a.reserved_slice_mut() };
            rng.fill(s);
        }
        let mut hs = vec![];
        for _ in 0..8 {
            let n = rng.range(8, 40) as u32;
            if let Ok(mut h) = a.alloc_bytes(n) {
                unsafe { std::ptr::write_bytes(h.as_mut_ptr(), 0x11 + hs.len() as u8, n as usize) };
                hs.push(h);
            }
        }
        // leave garbage above the cursor: the two topmost handles are released on top
        let top2 = hs.split_off(hs.len().saturating_sub(2));
        for h in top2.into_iter().rev() {
            drop(h);
        }
        for (i, mut h) in hs.into_iter().enumerate() {
            if i % 2 == 0 {
                unsafe { rarena_allocator::Buffer::detach(&mut h) };
            }
            drop(h);
        }
        let _ = a.flush();
    }
    let bytes = std::fs::read(&path).expect("read back");
    Seed { path, cfg, bytes }
}

#[derive(Clone, Copy, Debug, PartialEq)]
enum Verdict {
    MustFail,
    MustSucceed,
    Either,
}

thread_local! {
    static ATTEMPT_NO: std::cell::Cell<u64> = const { std::cell::Cell::new(0) };
}

/// 20-line reference of the identification rule.
fn reference(file: &[u8], reserved: usize, mode: OpenMode, exp_fl: Freelist, exp_magic: u16) -> Verdict {
    let prefix = ((reserved + 7) & !7) + 8 + 24;
    if file.len() < prefix {
        return Verdict::MustFail;
    }
    let id = &file[reserved..reserved + 8];
    let fl_ok = id[1] <= 2;
    let text_ok = &id[2..4] == b"al";
    let magic = u16::from_le_bytes([id[4], id[5]]);
    let version = u16::from_le_bytes([id[6], id[7]]);
    if !fl_ok || !text_ok || magic != exp_magic || version != 0 {
        return Verdict::MustFail;
    }
    let writable = matches!(mode, OpenMode::MapMut | OpenMode::MapCopy);
    if id[1] != exp_fl as u8 {
        // a writable open states the freelist kind it expects; a read-only open has no way to (the kind is taken from the file)
        return if writable { Verdict::MustFail } else { Verdict::Either };
    }
    Verdict::MustSucceed
}

/// `flags`: bit0 create, bit1 truncate, bit2 append, bit3 write, bit4 create_new.  Writable opens only get
/// bit0 (the file exists, so `create` must not make a difference); read-only opens get any combination —
/// they are documented to ignore all of them.
fn try_open(flavour: Flavour, path: &str, reserved: u32, mode: OpenMode, fl: Freelist, magic: u16, cap: Option<u32>, flags: u8) -> Result<(), String> {
    let mut o = Options::new().with_reserved(reserved).with_freelist(fl).with_magic_version(magic).with_read(true);
    if let Some(c) = cap {
        o = o.with_capacity(c);
    }
    if flags & 1 != 0 {
        o = o.with_create(true);
    }
    if flags & 2 != 0 {
        o = o.with_truncate(true);
    }
    if flags & 4 != 0 {
        o = o.with_append(true);
    }
    if flags & 8 != 0 {
        o = o.with_write(true);
    }
    if flags & 16 != 0 {
        o = o.with_create_new(true);
    }
    // every second open goes through the `*_with_path_builder` form of the constructor
    let pb = if crate::arena::use_path_builder() { Some(std::path::PathBuf::from(path)) } else { None };
    fn flat<T>(r: Result<T, rarena_allocator::either::Either<std::io::Error, std::io::Error>>) -> std::io::Result<T> {
        r.map_err(|e| e.either(|l| l, |r| r))
    }
    macro_rules! go {
        ($A:ty) => {{
            let r = match (mode, pb) {
                (OpenMode::MapMut, None) => unsafe { o.with_write(true).map_mut::<$A, _>(path) },
                (OpenMode::MapCopy, None) => unsafe { o.with_write(true).map_copy::<$A, _>(path) },
                (OpenMode::Map, None) => unsafe { o.map::<$A, _>(path) },
                (OpenMode::MapCopyRo, None) => unsafe { o.map_copy_read_only::<$A, _>(path) },
                (OpenMode::MapMut, Some(pb)) => flat(unsafe { o.with_write(true).map_mut_with_path_builder::<$A, _, std::io::Error>(move || Ok(pb)) }),
                (OpenMode::MapCopy, Some(pb)) => flat(unsafe { o.with_write(true).map_copy_with_path_builder::<$A, _, std::io::Error>(move || Ok(pb)) }),
                (OpenMode::Map, Some(pb)) => flat(unsafe { o.map_with_path_builder::<$A, _, std::io::Error>(move || Ok(pb)) }),
                (OpenMode::MapCopyRo, Some(pb)) => flat(unsafe { o.map_copy_read_only_with_path_builder::<$A, _, std::io::Error>(move || Ok(pb)) }),
            };
            // an accepted read-only open yields a read-only arena
            if let Ok(a) = &r {
                if matches!(mode, OpenMode::Map | OpenMode::MapCopyRo) && !a.read_only() {
                    return Err("NOT-READ-ONLY".to_string());
                }
            }
            r.map(|a| drop(a)).map_err(|e| format!("{:?}: {}", e.kind(), e))
        }};
    }
    match flavour {
        Flavour::Sync => go!(sync::Arena),
        Flavour::Unsync => go!(unsync::Arena),
    }
}

fn fl_of(b: u8) -> Freelist {
    match b {
        1 => Freelist::Optimistic,
        2 => Freelist::Pessimistic,
        _ => Freelist::None,
    }
}

const MODES: [OpenMode; 4] = [OpenMode::MapMut, OpenMode::MapCopy, OpenMode::Map, OpenMode::MapCopyRo];

#[allow(clippy::too_many_arguments)]
fn attempt(out: &mut Out, seed: &Seed, content: &[u8], what: &str, mode: OpenMode, exp_fl: Freelist, exp_magic: u16, cap: Option<u32>, opener: Flavour) {
    let path = format!("{}.mut", seed.path);
    std::fs::write(&path, content).expect("write mutated file");
    let verdict = reference(content, seed.cfg.reserved as usize, mode, exp_fl, exp_magic);
    out.inc("c09_open_attempts");
    let att = ATTEMPT_NO.with(|a| {
        let v = a.get();
        a.set(v + 1);
        v
    });
    let writable_mode = matches!(mode, OpenMode::MapMut | OpenMode::MapCopy);
    let flags: u8 = if att % 3 != 0 {
        0
    } else if writable_mode {
        1
    } else {
        let f = (mix(att, 0xF1A6) % 31 + 1) as u8;
        f
    };
    // a file that must be refused is also opened with a capacity smaller than the file (the refusal must
    // not shrink it either)
    let cap = if matches!(verdict, Verdict::MustFail) && att % 4 == 1 && content.len() > 16 {
        out.inc("c09_refusals_with_capacity_below_file_length");
        Some((content.len() / 2) as u32)
    } else {
        cap
    };
    if flags != 0 {
        out.inc(if writable_mode { "c09_writable_opens_with_create_flag" } else { "c09_readonly_opens_with_stray_flags" });
    }
    let r = std::panic::catch_unwind(|| try_open(opener, &path, seed.cfg.reserved, mode, exp_fl, exp_magic, cap, flags));
    let after = std::fs::read(&path).unwrap_or_default();
    let detail = |msg: String| crate::jobj!("mutation" => what, "mode" => format!("{:?}", mode), "expected_freelist" => format!("{:?}", exp_fl), "expected_magic" => exp_magic, "capacity_option" => format!("{:?}", cap), "opened_by" => format!("{:?}", opener), "file_written_by" => format!("{:?}", seed.cfg.flavour), "reserved" => seed.cfg.reserved, "file_len" => content.len(), "open_flags(create=1,truncate=2,append=4,write=8,create_new=16)" => flags as u64, "message" => msg);
    let r = match r {
        Err(_) => {
            let (loc, msg) = crate::seq::LAST_PANIC.with(|p| p.borrow().clone());
            out.viol("C09", &format!("open-panicked:{:?}", mode), detail(format!("panic at {}: {}", loc, msg)));
            return;
        }
        Ok(r) => r,
    };
    if let Err(e) = &r {
        if e == "NOT-READ-ONLY" {
            out.viol("C09", &format!("read-only-open-yields-writable-arena:{:?}", mode), detail("read_only() is false on an arena opened with a read-only variant".into()));
            let _ = std::fs::remove_file(&path);
            return;
        }
    }
    match (&r, verdict) {
        (Ok(()), Verdict::MustFail) => {
            out.viol("C09", &format!("open-accepted-bad-file:{:?}", mode), detail("open succeeded although the identification rule says it must fail".into()));
        }
        (Err(e), Verdict::MustSucceed) => {
            out.viol("C09", &format!("open-refused-good-file:{:?}", mode), detail(format!("open failed: {}", e)));
        }
        _ => {}
    }
    if r.is_err() {
        out.inc("c09_refused_opens");
        // the bytes that were in the file are exactly as they were
        let n = content.len();
        if after.len() < n || after[..n] != content[..] {
            let pos = (0..n.min(after.len())).find(|i| after[*i] != content[*i]).unwrap_or(n.min(after.len()));
            out.viol("C09", &format!("refused-open-altered-file:{:?}", mode), detail(format!("file changed by a refused open: first difference at byte {} ({:#04x} -> {:#04x}), length {} -> {}", pos, content.get(pos).copied().unwrap_or(0), after.get(pos).copied().unwrap_or(0), n, after.len())));
        } else {
            out.inc("c09_refused_open_file_compares");
            if after.len() > n {
                out.inc("c09_refused_open_grew_file_by_zeros");
                if after[n..].iter().any(|b| *b != 0) {
                    out.viol("C09", &format!("refused-open-altered-file:{:?}", mode), detail("file grew by non-zero bytes".into()));
                }
            }
        }
    } else {
        out.inc("c09_accepted_opens");
        if matches!(mode, OpenMode::Map | OpenMode::MapCopyRo | OpenMode::MapCopy) {
            // read-only and private opens never change the file either
            if after != content {
                if !(mode == OpenMode::MapCopy && cap.is_some() && after.len() > content.len() && after[..content.len()] == content[..]) {
                    out.viol("C09", &format!("non-writing-open-altered-file:{:?}", mode), detail("a read-only / private open changed the file".into()));
                }
            } else {
                out.inc("c09_nonwriting_open_file_compares");
            }
        }
    }
    let _ = std::fs::remove_file(&path);
}

fn part_a(out: &mut Out, rng: &mut Rng, seeds: &[Seed], thorough: bool) {
    for (si, seed) in seeds.iter().enumerate() {
        let r = seed.cfg.reserved as usize;
        let stored_fl = fl_of(seed.bytes[r + 1]);
        let stored_magic = u16::from_le_bytes([seed.bytes[r + 4], seed.bytes[r + 5]]);
        out.at(&format!("files --seed-file {} part A", si));
        // (a) each identification byte x each value
        for pos in 0..8 {
            for val in 0..=255u8 {
                if !thorough && pos != 1 && val % 7 != (si as u8) % 7 && val > 3 && val < 250 && val != seed.bytes[r + pos] {
                    continue;
                }
                let mut c = seed.bytes.clone();
                c[r + pos] = val;
                let mode = MODES[(pos + val as usize + si) % 4];
                let opener = if (val as usize + si) % 2 == 0 { Flavour::Sync } else { Flavour::Unsync };
                let cap = if val % 3 == 0 { Some(seed.cfg.cap + (val as u32 % 5) * 16) } else { None };
                attempt(out, seed, &c, &format!("id byte {} = {:#04x}", pos, val), mode, stored_fl, stored_magic, cap, opener);
                if thorough || val < 3 {
                    for m in MODES {
                        if m != mode {
                            attempt(out, seed, &c, &format!("id byte {} = {:#04x}", pos, val), m, stored_fl, stored_magic, None, opener);
                        }
                    }
                }
            }
        }
        out.inc("c09_id_byte_sweeps");
        // expectation mismatches on the unmodified file
        for m in MODES {
            for fl in [Freelist::None, Freelist::Optimistic, Freelist::Pessimistic] {
                for magic in [stored_magic, stored_magic.wrapping_add(1), 0, u16::MAX] {
                    for cap in [None, Some(seed.cfg.cap), Some(seed.cfg.cap + 64)] {
                        attempt(out, seed, &seed.bytes, "unmodified file", m, fl, magic, cap, if magic % 2 == 0 { Flavour::Sync } else { Flavour::Unsync });
                    }
                }
            }
        }
        // (b) truncation
        let prefix = seed.cfg.prefix() as usize;
        let mut lens: Vec<usize> = (0..=prefix + 8).collect();
        for _ in 0..6 {
            lens.push(rng.range(prefix as u64 + 9, seed.bytes.len() as u64) as usize);
        }
        for l in lens {
            let c = seed.bytes[..l.min(seed.bytes.len())].to_vec();
            let mode = MODES[l % 4];
            let cap = match l % 3 {
                0 => None,
                1 => Some(seed.cfg.cap),
                _ => Some(l as u32),
            };
            // longer truncations keep a valid header: a writable open of a file cut below its stored cursor
            // is outside the statement (capacity below the cursor) -> only lengths up to prefix+8 assert a verdict
            if l > prefix + 8 {
                continue;
            }
            attempt(out, seed, &c, &format!("truncated to {} bytes", l), mode, stored_fl, stored_magic, cap, Flavour::Sync);
            attempt(out, seed, &c, &format!("truncated to {} bytes", l), MODES[(l + 1) % 4], stored_fl, stored_magic, None, Flavour::Unsync);
        }
        out.inc("c09_truncation_sweeps");
        // (c) arbitrary bytes
        for k in 0..(if thorough { 200 } else { 40 }) {
            let l = rng.range(0, 400) as usize;
            let mut c = vec![0u8; l];
            rng.fill(&mut c);
            if k % 4 == 0 && l > r + 8 {
                // nearly valid: correct text, random rest
                c[r + 2] = b'a';
                c[r + 3] = b'l';
            }
            attempt(out, seed, &c, "arbitrary bytes", MODES[k % 4], stored_fl, stored_magic, if k % 2 == 0 { None } else { Some(l as u32) }, if k % 3 == 0 { Flavour::Unsync } else { Flavour::Sync });
        }
        out.hash(mix(si as u64, seed.bytes.len() as u64));
    }
}

/// Part B: a read-only arena rejects every mutating call of the safe API and never changes the file.
fn part_b<A: VArena>(out: &mut Out, seed: &Seed, mode: OpenMode, only: Option<u64>) {
    let before = std::fs::read(&seed.path).expect("seed file");
    let o = Options::new().with_reserved(seed.cfg.reserved).with_magic_version(seed.cfg.magic).with_freelist(seed.cfg.freelist.to()).with_read(true);
    let pb = if crate::arena::use_path_builder() { Some(std::path::PathBuf::from(&seed.path)) } else { None };
    let a: A = match (mode, pb) {
        (OpenMode::Map, None) => unsafe { o.map::<A, _>(&seed.path) },
        (OpenMode::Map, Some(pb)) => unsafe { o.map_with_path_builder::<A, _, std::io::Error>(move || Ok(pb)) }.map_err(|e| e.either(|l| l, |r| r)),
        (_, None) => unsafe { o.map_copy_read_only::<A, _>(&seed.path) },
        (_, Some(pb)) => unsafe { o.map_copy_read_only_with_path_builder::<A, _, std::io::Error>(move || Ok(pb)) }.map_err(|e| e.either(|l| l, |r| r)),
    }
    .expect("read-only open of a valid file");
    let a: &'static A = Box::leak(Box::new(a));
    if !a.read_only() {
        out.viol("C09", "read-only-flag", crate::jobj!("message" => "read_only() is false after a read-only open"));
    }
    let st = |a: &A| (a.allocated(), a.discarded(), a.minimum_segment_size(), a.snap());
    let pre = st(a);
    let calls: Vec<(&str, Box<dyn Fn() -> Result<(), Error>>)> = vec![
        ("alloc_bytes", Box::new(move || a.alloc_bytes(8).map(|_| ()))),
        ("alloc_bytes(0)", Box::new(move || a.alloc_bytes(0).map(|_| ()))),
        ("alloc_bytes_owned", Box::new(move || a.alloc_bytes_owned(8).map(|_| ()))),
        ("alloc_aligned_bytes", Box::new(move || a.alloc_aligned_bytes::<u64>(8).map(|_| ()))),
        ("alloc_aligned_bytes_owned", Box::new(move || a.alloc_aligned_bytes_owned::<u64>(8).map(|_| ()))),
        ("alloc", Box::new(move || unsafe { a.alloc::<u64>() }.map(|_| ()))),
        ("alloc_owned", Box::new(move || unsafe { a.alloc_owned::<u64>() }.map(|_| ()))),
        ("alloc::<()>", Box::new(move || unsafe { a.alloc::<()>() }.map(|_| ()))),
        ("discard_freelist", Box::new(move || a.discard_freelist().map(|_| ()))),
        ("clear", Box::new(move || unsafe { a.clear() })),
        ("set_minimum_segment_size", Box::new(move || {
            a.set_minimum_segment_size(77);
            Ok(())
        })),
        ("increase_discarded", Box::new(move || {
            a.increase_discarded(5);
            Ok(())
        })),
        ("reserved_slice_mut", Box::new(move || {
            let s = unsafe { a.reserved_slice_mut() };
            if !s.is_empty() {
                s[0] ^= 0xFF;
            }
            Ok(())
        })),
        ("get_bytes_mut", Box::new(move || {
            let s = unsafe { a.get_bytes_mut(a.data_offset(), 1) };
            if !s.is_empty() {
                s[0] ^= 0xFF;
            }
            Ok(())
        })),
        ("flush", Box::new(move || a.flush().map_err(|_| Error::ReadOnly))),
        ("flush_async", Box::new(move || a.flush_async().map_err(|_| Error::ReadOnly))),
        ("flush_range", Box::new(move || a.flush_range(0, 8).map_err(|_| Error::ReadOnly))),
        ("flush_header", Box::new(move || a.flush_header().map_err(|_| Error::ReadOnly))),
    ];
    for (k, (name, f)) in calls.iter().enumerate() {
        if only.map_or(false, |o| o != k as u64) {
            continue;
        }
        out.at(&format!("files-ro --mode {:?} --flavour {:?} --call {} ({})", mode, A::FLAVOUR, k, name));
        out.inc("c09_readonly_calls");
        let r = std::panic::catch_unwind(std::panic::AssertUnwindSafe(|| f()));
        let detail = |msg: String| crate::jobj!("call" => *name, "mode" => format!("{:?}", mode), "flavour" => format!("{:?}", A::FLAVOUR), "message" => msg);
        let is_flush = name.starts_with("flush");
        let unit_mutator = matches!(*name, "set_minimum_segment_size" | "increase_discarded" | "reserved_slice_mut" | "get_bytes_mut");
        match r {
            Err(_) => {
                let (loc, msg) = crate::seq::LAST_PANIC.with(|p| p.borrow().clone());
                if !msg.to_lowercase().contains("read-only") {
                    out.viol("C09", &format!("readonly:{}:undocumented-panic", name), detail(format!("panicked at {} with {:?}", loc, msg)));
                } else {
                    out.inc("c09_readonly_documented_panics");
                }
            }
            Ok(Err(Error::ReadOnly)) => out.inc("c09_readonly_errors"),
            Ok(Err(e)) => out.viol("C09", &format!("readonly:{}:wrong-error", name), detail(format!("{:?}", e))),
            Ok(Ok(())) => {
                let zero_sized = *name == "alloc_bytes(0)" || *name == "alloc::<()>";
                if unit_mutator && (*name == "reserved_slice_mut" && seed.cfg.reserved == 0) {
                    // nothing to mutate: an empty slice is fine
                } else if unit_mutator {
                    out.viol("C09", &format!("readonly:{}:not-rejected", name), detail("the call returned normally on a read-only arena".into()));
                } else if !is_flush && !zero_sized {
                    out.viol("C09", &format!("readonly:{}:not-rejected", name), detail("the call returned Ok on a read-only arena".into()));
                } else if zero_sized {
                    // statement: zero-size requests succeed on any *writable* arena; on a read-only one either answer is accepted
                    out.inc("c09_readonly_zero_size_ok");
                }
            }
        }
        let post = st(a);
        if post != pre {
            out.viol("C09", &format!("readonly:{}:changed-state", name), detail(format!("state before {:?} after {:?}", (pre.0, pre.1, pre.2), (post.0, post.1, post.2))));
        }
        let now = std::fs::read(&seed.path).unwrap_or_default();
        if now != before {
            out.viol("C09", &format!("readonly:{}:changed-file", name), detail("file bytes differ after the call".into()));
        } else {
            out.inc("c09_readonly_file_compares");
        }
    }
    // unsync only: truncate on a read-only arena fails without effect
    out.hash(mix(mode as u64 + 100, A::FLAVOUR as u64));
}

/// unsync only: `truncate(n)` on a read-only arena fails without effect — for every n (C18's quantifier:
/// 0..=4*capacity), on a partly filled arena and on a completely full one (where max(n, allocated) ==
/// capacity for every n <= capacity, i.e. the call would be a no-op if it were allowed).
fn part_b_truncate(out: &mut Out, seed: &Seed) {
    // a second file: the same arena, filled to the brim
    let full_path = format!("{}.full", seed.path);
    std::fs::write(&full_path, &seed.bytes).expect("copy seed");
    {
        let mut c = seed.cfg.clone();
        c.path = Some(full_path.clone());
        if let Ok(a) = reopen::<unsync::Arena>(&c, OpenMode::MapMut, None, false) {
            let rem = a.remaining() as u32;
            if let Ok(mut h) = a.alloc_bytes(rem) {
                unsafe { rarena_allocator::Buffer::detach(&mut h) };
            }
            let _ = a.flush();
        }
    }
    for (path, what) in [(seed.path.clone(), "partly-filled"), (full_path.clone(), "full")] {
        let before = std::fs::read(&path).expect("seed file");
        for mode in [OpenMode::Map, OpenMode::MapCopyRo] {
            let o = Options::new().with_reserved(seed.cfg.reserved).with_magic_version(seed.cfg.magic).with_read(true);
            let mut a = match mode {
                OpenMode::Map => unsafe { o.map::<unsync::Arena, _>(&path) },
                _ => unsafe { o.map_copy_read_only::<unsync::Arena, _>(&path) },
            }
            .expect("read-only open of a valid file");
            let cap = a.capacity();
            let used = a.allocated();
            let mut ns: Vec<usize> = vec![0, 1, used.saturating_sub(1), used, used + 1, cap - 1, cap, cap + 1, cap + 100, 2 * cap, 4 * cap, cap / 2];
            for k in 0..=16usize {
                ns.push(cap * k / 4);
            }
            let st = |a: &unsync::Arena| (a.capacity(), a.allocated(), a.discarded(), a.minimum_segment_size(), a.snap(), a.memory().to_vec());
            let pre = st(&a);
            for n in ns {
                out.inc("c09_readonly_calls");
                out.inc("c18_readonly_truncate_checks");
                if n.max(used) == cap {
                    out.inc("c18_readonly_truncate_checks_where_the_call_would_be_a_no_op");
                }
                let r = a.truncate(n);
                let post = st(&a);
                if r.is_ok() || post != pre {
                    let msg = format!("truncate({}) on a read-only ({:?}, {}) arena with allocated {} capacity {} returned {} and left capacity {} allocated {}", n, mode, what, used, cap, if r.is_ok() { "Ok" } else { "Err" }, post.0, post.1);
                    out.viol("C18", "readonly-truncate-not-rejected", crate::jobj!("message" => msg.clone(), "mode" => format!("{:?}", mode), "arena" => what, "n" => n as u64));
                    out.viol("C09", "readonly:truncate:not-rejected", crate::jobj!("message" => msg, "mode" => format!("{:?}", mode), "arena" => what, "n" => n as u64));
                    break;
                }
            }
            drop(a);
            if std::fs::read(&path).unwrap_or_default() != before {
                out.viol("C18", "readonly-truncate-changed-file", crate::jobj!("message" => "file changed by truncate on a read-only arena"));
                out.viol("C09", "readonly:truncate:changed-file", crate::jobj!("message" => "file changed"));
            }
        }
    }
    let _ = std::fs::remove_file(&full_path);
}

pub fn child_main(args: &Args) -> i32 {
    let seed = args.u64("seed", 1);
    let mut out = Out::new();
    out.viol_cap = 80;
    out.quiet_at = false;
    crate::seq::install_panic_capture();
    let mut rng = Rng::new(seed ^ 0xC09);
    let n_seeds = args.u64("files", 6);
    let part = args.str("part", "a");
    let thorough = args.has("thorough");
    let mut seeds = vec![];
    for k in 0..n_seeds {
        if k % 2 == 0 {
            seeds.push(make_valid::<sync::Arena>(&mut rng, k, Flavour::Sync));
        } else {
            seeds.push(make_valid::<unsync::Arena>(&mut rng, k, Flavour::Unsync));
        }
    }
    if part == "a" {
        part_a(&mut out, &mut rng, &seeds, thorough);
        out.sample(crate::jobj!("seed_file_cfg" => seeds[0].cfg.to_json(), "file_len" => seeds[0].bytes.len(), "id_bytes" => J::Arr(seeds[0].bytes[seeds[0].cfg.reserved as usize..seeds[0].cfg.reserved as usize + 8].iter().map(|b| J::Int(*b as i128)).collect())));
    } else if part == "t" {
        // C18: truncate on read-only arenas (unsync only)
        for s in seeds.iter() {
            out.at(&format!("files --part t --seed {} (read-only truncate sweep on {})", seed, s.path));
            part_b_truncate(&mut out, s);
            out.hash(mix(0x7C18, s.bytes.len() as u64));
        }
        out.sample(J::Str(format!("files --part t --seed {}: truncate(n) for n in 0..=4*capacity on read-only arenas (map, map_copy_read_only; partly filled and full)", seed)));
    } else {
        let only = args.kv.get("call").and_then(|s| s.parse::<u64>().ok());
        let mode = if args.str("mode", "Map") == "Map" { OpenMode::Map } else { OpenMode::MapCopyRo };
        let fl = args.str("flavour", "sync");
        for s in seeds.iter() {
            if fl == "sync" {
                part_b::<sync::Arena>(&mut out, s, mode, only);
            } else {
                part_b::<unsync::Arena>(&mut out, s, mode, only);
                if only.is_none() {
                    part_b_truncate(&mut out, s);
                }
            }
        }
        out.sample(J::Str(format!("files --part b --mode {:?} --flavour {}", mode, fl)));
    }
    for s in seeds {
        let _ = std::fs::remove_file(&s.path);
    }
    out.emit();
    0
}
