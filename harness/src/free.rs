//! E-FREE: free-running stress (real parallel threads) for the sanitizer builds (TSan, ASan),
//! Miri and plain release.  The hook callback only injects delays chosen from a thread-local
//! PRNG (no locks: the harness must not add happens-before edges that would mask a race).
//! Users read and write their buffers with plain accesses: those are the accesses that race if
//! the arena's ordering is too weak.

use crate::arena::*;
use crate::model::Req;
use crate::out::Out;
use crate::sched::{gen_programs, POp};
use crate::util::json::J;
use crate::util::rng::Rng;
use crate::Args;
use rarena_allocator::verif_hooks::{self as vhk, Directive, Pending};
use rarena_allocator::{sync, Allocator};
use std::cell::Cell;
use std::sync::atomic::{AtomicBool, AtomicU64, Ordering};
use std::sync::Mutex;

thread_local! {
    static DELAY_RNG: Cell<u64> = const { Cell::new(0) };
}
static DELAYS: AtomicU64 = AtomicU64::new(0);
static DELAY_ON: AtomicBool = AtomicBool::new(false);
static START: AtomicBool = AtomicBool::new(false);

fn hook_delay(_p: &Pending) -> Directive {
    if !DELAY_ON.load(Ordering::Relaxed) {
        return Directive::Proceed;
    }
    DELAY_RNG.with(|r| {
        let mut x = r.get();
        if x == 0 {
            return;
        }
        x ^= x << 13;
        x ^= x >> 7;
        x ^= x << 17;
        r.set(x);
        match x % 16 {
            0 => {
                for _ in 0..(x >> 8) % 400 {
                    std::hint::spin_loop();
                }
            }
            1 => std::thread::yield_now(),
            2 if cfg!(not(miri)) && (x >> 20) % 8 == 0 => std::thread::sleep(std::time::Duration::from_micros((x >> 30) % 50)),
            _ => {}
        }
    });
    Directive::Proceed
}

/// Delay in front of the arena's plain zeroing too (between the atomic access that preceded it and the memset).
fn hook_zeroed_delay(_addr: usize, _len: usize) {
    if !DELAY_ON.load(Ordering::Relaxed) {
        return;
    }
    DELAY_RNG.with(|r| {
        let mut x = r.get();
        if x == 0 {
            return;
        }
        x ^= x << 13;
        x ^= x >> 7;
        x ^= x << 17;
        r.set(x);
        match x % 8 {
            0 => {
                for _ in 0..(x >> 8) % 2000 {
                    std::hint::spin_loop();
                }
            }
            1 | 2 => std::thread::yield_now(),
            3 if cfg!(not(miri)) && (x >> 20) % 4 == 0 => std::thread::sleep(std::time::Duration::from_micros((x >> 30) % 80)),
            _ => {}
        }
    });
}

struct SendBox(Box<dyn Handle>);
unsafe impl Send for SendBox {}

struct Slot {
    h: Option<SendBox>,
    hid: u64,
    off: u32,
    cap: u32,
    gen: u32,
    owned: bool,
}

static VIOLS: Mutex<Vec<(String, String)>> = Mutex::new(Vec::new());

fn report(sig: &str, msg: String) {
    let mut v = VIOLS.lock().unwrap();
    if v.len() < 8 {
        v.push((sig.to_string(), msg));
    }
}

#[allow(clippy::too_many_arguments)]
fn worker(me: usize, arena: sync::Arena, prog: Vec<POp>, seed: u64, tx: std::sync::mpsc::Sender<(SendBox, u64, u32, u32, u32)>, rx: std::sync::Arc<Mutex<std::sync::mpsc::Receiver<(SendBox, u64, u32, u32, u32)>>>, counters: &'static [AtomicU64; 6]) {
    DELAY_RNG.with(|r| r.set(crate::util::rng::mix(seed, me as u64) | 1));
    let arena_box = Box::new(arena);
    let a: &'static sync::Arena = unsafe { &*(&*arena_box as *const sync::Arena) };
    let base = a.raw_ptr() as usize;
    while !START.load(Ordering::Acquire) {
        std::hint::spin_loop();
        if cfg!(miri) {
            std::thread::yield_now();
        }
    }
    let mut slots: Vec<Slot> = (0..4).map(|_| Slot { h: None, hid: 0, off: 0, cap: 0, gen: 0, owned: false }).collect();
    let mut clones: Vec<sync::Arena> = vec![];
    let mut next_hid = 1000 * me as u64;
    let verify = |s: &Slot, when: &str| {
        if s.cap == 0 {
            return;
        }
        let exp = crate::seq::pattern(s.hid, s.gen, s.cap as usize);
        let m = unsafe { std::slice::from_raw_parts((base + s.off as usize) as *const u8, s.cap as usize) };
        if m != &exp[..] {
            let p = m.iter().zip(exp.iter()).position(|(x, y)| x != y).unwrap();
            report("live-bytes-changed:free-running", format!("T{} handle #{} [{},+{}) byte {} reads {:#04x}, owner wrote {:#04x} ({})", me, s.hid, s.off, s.cap, p, m[p], exp[p], when));
        }
        counters[1].fetch_add(1, Ordering::Relaxed);
    };
    for op in prog.iter() {
        match op {
            POp::Alloc { slot, .. } if slots[*slot].h.is_some() => {}
            POp::Alloc { slot, req, ty, owned } => {
                if let Ok(mut h) = crate::runner::alloc_any_pub(a, next_hid, *req, *ty, *owned) {
                    let (off, cap) = (h.offset() as u32, h.capacity() as u32);
                    let hid = next_hid;
                    next_hid += 1;
                    counters[0].fetch_add(1, Ordering::Relaxed);
                    if cap > 0 {
                        if (off as usize) < a.data_offset() || off as usize + cap as usize > a.capacity() {
                            report("handle-outside-data-area:free-running", format!("T{} got [{},+{})", me, off, cap));
                            continue;
                        }
                        if matches!(req, Req::Bytes(_)) {
                            let m = unsafe { std::slice::from_raw_parts((base + off as usize) as *const u8, cap as usize) };
                            if m.iter().any(|b| *b != 0) {
                                report("not-zeroed:free-running", format!("T{} alloc_bytes [{},+{}) not zero", me, off, cap));
                            }
                        }
                        if off != h.buffer_offset() as u32 {
                            counters[2].fetch_add(1, Ordering::Relaxed);
                        }
                    }
                    let data = crate::seq::pattern(hid, 1, cap as usize);
                    h.write(&data, false);
                    slots[*slot] = Slot { h: Some(SendBox(h)), hid, off, cap, gen: 1, owned: *owned };
                }
            }
            POp::Fill { slot } => {
                let s = &mut slots[*slot];
                if s.h.is_some() {
                    verify(s, "before refill");
                    s.gen += 1;
                    let data = crate::seq::pattern(s.hid, s.gen, s.cap as usize);
                    s.h.as_mut().unwrap().0.write(&data, false);
                }
            }
            POp::Drop { slot } => {
                if slots[*slot].h.is_some() {
                    verify(&slots[*slot], "before release");
                    let h = slots[*slot].h.take();
                    drop(h);
                }
            }
            POp::DetachDrop { slot } => {
                if let Some(mut h) = slots[*slot].h.take() {
                    verify(&slots[*slot], "before detach");
                    h.0.detach();
                    drop(h);
                }
            }
            POp::Leak { slot } => {
                // keep it for the whole run, verify at the end (released then)
                let _ = slot;
            }
            POp::CloneArena => clones.push(a.clone()),
            POp::DropClone => {
                clones.pop();
            }
            POp::DiscardFreelist => {
                let _ = a.discard_freelist();
            }
            POp::Send { slot } => {
                if slots[*slot].owned {
                    if let Some(h) = slots[*slot].h.take() {
                        verify(&slots[*slot], "before send");
                        let s = &slots[*slot];
                        let _ = tx.send((h, s.hid, s.off, s.cap, s.gen));
                        counters[3].fetch_add(1, Ordering::Relaxed);
                    }
                }
            }
            POp::Recv { slot } => {
                if slots[*slot].h.is_none() {
                    let got = rx.lock().unwrap().try_recv();
                    if let Ok((h, hid, off, cap, gen)) = got {
                        slots[*slot] = Slot { h: Some(h), hid, off, cap, gen, owned: true };
                        verify(&slots[*slot], "after receive");
                    }
                }
            }
        }
    }
    for s in slots.iter_mut() {
        if s.h.is_some() {
            verify(s, "at the end of the thread");
            s.h = None;
        }
    }
    drop(clones);
    drop(tx);
    drop(arena_box);
}

static COUNTERS: [AtomicU64; 6] = [const { AtomicU64::new(0) }; 6];

pub fn child_main(args: &Args) -> i32 {
    let prop = args.str("prop", "C12");
    let seed = args.u64("seed", 1);
    let fam = args.str("family", "A");
    let mut out = Out::new();
    crate::seq::install_panic_capture();
    vhk::install(Some(hook_delay), None, Some(hook_zeroed_delay));
    let from = args.u64("from", 0);
    let count = args.u64("count", 20);
    let stride = args.u64("stride", 1);
    let max_ops = args.u64("ops", 60);
    let max_threads = args.u64("threads", 4) as usize;
    let budget = args.u64("secs", 3600);
    let deadline = args.u64("run-deadline", 30);
    let t0 = std::time::Instant::now();
    for k in 0..count {
        let run = from + k * stride;
        if t0.elapsed().as_secs() >= budget {
            out.inc("stopped_on_time_budget");
            break;
        }
        out.at(&format!("free --prop {} --seed {} --family {} --from {} --count 1 --ops {} --threads {}", prop, seed, fam, run, max_ops, max_threads));
        let mut rng = Rng::derive(seed, run, if fam == "B" { 0xFB } else { 0xFA });
        let threads = 2 + rng.usize(max_threads - 1);
        let freelist = match run % 5 {
            0 | 1 => FL::Optimistic,
            2 | 3 => FL::Pessimistic,
            _ => FL::None,
        };
        let sizes_all = [8u32, 16, 24, 40, 9, 33, 64, 1, 0];
        let mut sizes = vec![];
        for _ in 0..(3 + rng.usize(3)) {
            sizes.push(*rng.pick(&sizes_all));
        }
        let ops = rng.range(8.min(max_ops), max_ops) as usize;
        let td = prop == "C13" || rng.chance(1, 3);
        let programs = gen_programs(&mut rng, threads, ops, fam == "B", &sizes, td);
        let unify = rng.bool();
        let cap = (if unify { 32 } else { 1 }) + *rng.pick(&[256u32, 384, 512, 1024]);
        let arena: sync::Arena = rarena_allocator::Options::new()
            .with_capacity(cap)
            .with_unify(unify)
            .with_freelist(freelist.to())
            .with_minimum_segment_size(*rng.pick(&[1u32, 8, 20]))
            .with_maximum_retries(*rng.pick(&[1u8, 5]))
            .alloc()
            .expect("arena");
        // prelude: a free list of a few segments, little fresh space left
        {
            let mut hs = vec![];
            for _ in 0..rng.usize(12) {
                if let Ok(mut h) = arena.alloc_bytes(*rng.pick(&[24u32, 32, 40, 56, 72, 17, 33])) {
                    unsafe { std::ptr::write_bytes(h.as_mut_ptr(), 0x5C, rarena_allocator::Buffer::capacity(&h)) };
                    hs.push(h);
                }
            }
            let room = *rng.pick(&[0u32, 0, 8, 24, 64]);
            let want = cap.saturating_sub(room).max(arena.allocated() as u32);
            unsafe { arena.rewind(rarena_allocator::ArenaPosition::Start(want)) };
            for (i, mut h) in hs.into_iter().enumerate() {
                if i % 2 == 1 {
                    unsafe { rarena_allocator::Buffer::detach(&mut h) };
                }
                drop(h);
            }
        }
        let (tx, rx) = std::sync::mpsc::channel();
        let rx = std::sync::Arc::new(Mutex::new(rx));
        DELAY_ON.store(true, Ordering::SeqCst);
        let done = std::sync::Arc::new(AtomicU64::new(0));
        let mut ths = vec![];
        for t in 0..threads {
            let a = arena.clone();
            let p = programs[t].clone();
            let (tx, rx, done) = (tx.clone(), rx.clone(), done.clone());
            let s = crate::util::rng::mix(seed, run);
            ths.push(std::thread::spawn(move || {
                worker(t + 1, a, p, s, tx, rx, &COUNTERS);
                done.fetch_add(1, Ordering::SeqCst);
            }));
        }
        drop(tx);
        START.store(true, Ordering::Release);
        // the creator drops its value first or last
        let keep = if run % 2 == 0 { Some(arena) } else { drop(arena); None };
        let t_run = std::time::Instant::now();
        let mut hung = false;
        while done.load(Ordering::SeqCst) < threads as u64 {
            if t_run.elapsed().as_secs() > deadline {
                hung = true;
                break;
            }
            std::thread::sleep(std::time::Duration::from_millis(1));
        }
        if hung {
            // a watchdog firing is inconclusive for the property under check and a hang sighting for C07
            out.inc("watchdog_hang_sightings");
            out.inconclusive(&format!("run {} did not finish within {}s (hang sighting, not a verdict)", run, deadline));
            out.emit();
            std::process::exit(0);
        }
        for th in ths {
            let _ = th.join();
        }
        // unreceived owned buffers
        while let Ok((h, ..)) = rx.lock().unwrap().try_recv() {
            drop(h);
        }
        drop(keep);
        DELAY_ON.store(false, Ordering::SeqCst);
        START.store(false, Ordering::SeqCst);
        out.inc("runs");
        out.inc(&format!("family.{}", fam));
        out.inc(&format!("freelist.{}", freelist.name()));
        out.inc(&format!("threads.{}", threads));
        out.hash(crate::util::rng::mix(seed, run) ^ threads as u64);
        if k == 0 {
            out.sample(crate::jobj!("run" => run, "threads" => threads, "freelist" => freelist.name(), "capacity" => cap, "programs" => J::Arr(programs.iter().map(|p| J::Arr(p.iter().take(30).map(|o| J::Str(format!("{:?}", o))).collect())).collect())));
        }
        let v: Vec<(String, String)> = VIOLS.lock().unwrap().drain(..).collect();
        for (sig, msg) in v {
            out.viol(&prop, &sig, crate::jobj!("message" => msg, "run" => run, "replay_args" => format!("free --prop {} --seed {} --family {} --from {} --count 1 --ops {} --threads {}", prop, seed, fam, run, max_ops, max_threads)));
        }
    }
    out.add("allocations", COUNTERS[0].load(Ordering::Relaxed));
    out.add("pattern_verifications", COUNTERS[1].load(Ordering::Relaxed));
    out.add("recycled_allocations", COUNTERS[2].load(Ordering::Relaxed));
    out.add("cross_thread_transfers", COUNTERS[3].load(Ordering::Relaxed));
    out.add("delays_injected", DELAYS.load(Ordering::Relaxed));
    out.emit();
    0
}
