//! E-CRASH (C06): crash-point sweep.  A single-threaded history runs on a writable file-backed
//! arena; during the operation under test the `before` callback of every atomic access copies
//! `memory()` — the MAP_SHARED page-cache image at that instant — and the copy is later written
//! to a fresh file, reopened with map_mut and put through the recovery oracle.  A sample of the
//! crash points is replayed with a real child process that abort()s inside the same callback,
//! and its file must be byte-identical to the in-process snapshot.

use crate::arena::*;
use crate::out::Out;
use crate::util::json::J;
use crate::util::rng::{mix, Rng};
use crate::Args;
use rarena_allocator::verif_hooks::{self as vhk, Access, Directive, Pending};
#[allow(unused_imports)]
use rarena_allocator::{sync, unsync, Allocator};
use std::cell::{Cell, RefCell};

thread_local! {
    static SNAP_ON: Cell<bool> = const { Cell::new(false) };
    static SNAPS: RefCell<Vec<(String, Vec<u8>)>> = const { RefCell::new(Vec::new()) };
    static MEM: Cell<(usize, usize)> = const { Cell::new((0, 0)) };
    static EVENT_NO: Cell<usize> = const { Cell::new(0) };
    static ABORT_AT: Cell<usize> = const { Cell::new(usize::MAX) };
    static BUDGET: Cell<i64> = const { Cell::new(-1) };
}

struct Budget;

fn hook_before(p: &Pending) -> Directive {
    if std::thread::panicking() {
        return Directive::Proceed;
    }
    let b = BUDGET.with(|b| b.get());
    if b >= 0 {
        if b == 0 {
            BUDGET.with(|b| b.set(-1));
            std::panic::panic_any(Budget);
        }
        BUDGET.with(|x| x.set(b - 1));
        return Directive::Proceed;
    }
    if SNAP_ON.with(|s| s.get()) {
        let n = EVENT_NO.with(|e| {
            let v = e.get();
            e.set(v + 1);
            v
        });
        if ABORT_AT.with(|a| a.get()) == n {
            // the real thing: die here, the kernel keeps the shared mapping's pages
            std::process::abort();
        }
        let (base, len) = MEM.with(|m| m.get());
        let img = unsafe { std::slice::from_raw_parts(base as *const u8, len) }.to_vec();
        let label = format!("before#{}:{:?}@{}:{}", n, p.access, p.file.rsplit('/').next().unwrap_or(""), access_class(p));
        SNAPS.with(|s| {
            let mut s = s.borrow_mut();
            if s.len() < 200 {
                s.push((label, img));
            }
        });
    }
    Directive::Proceed
}

/// The arena is about to zero a range (plain memset, announced before it happens): one more crash point,
/// between the atomic access that preceded the zeroing and the zeroing itself.
fn hook_zeroed(addr: usize, len: usize) {
    if std::thread::panicking() || BUDGET.with(|b| b.get()) >= 0 || !SNAP_ON.with(|s| s.get()) {
        return;
    }
    let n = EVENT_NO.with(|e| e.get());
    let (base, mlen) = MEM.with(|m| m.get());
    let img = unsafe { std::slice::from_raw_parts(base as *const u8, mlen) }.to_vec();
    let label = format!("before-zeroing#{}:Zeroing@[{},+{}):plain", n, addr.wrapping_sub(base), len);
    SNAPS.with(|s| {
        let mut s = s.borrow_mut();
        if s.len() < 200 {
            s.push((label, img));
        }
    });
}

fn access_class(p: &Pending) -> &'static str {
    match p.access {
        Access::Load => "load",
        Access::Store => "store",
        Access::Cas | Access::CasWeak => "cas",
        _ => "rmw",
    }
}

#[derive(Clone, Debug)]
struct LiveR {
    off: u32,
    cap: u32,
    boff: u32,
    bcap: u32,
    id: u64,
}

fn pat(id: u64, n: usize) -> Vec<u8> {
    crate::seq::pattern(id ^ 0xC06, 1, n)
}

#[derive(Clone, Debug)]
enum TOp {
    AllocBytes(u32),
    AllocTyped(u8),
    AllocAligned(u8, u32),
    DropLive(usize),
    DiscardFreelist,
    SetMinSeg(u32),
    IncDiscarded(u32),
    Clear,
}

struct Hist {
    cfg: Cfg,
    live: Vec<LiveR>,
    next_id: u64,
}

/// The recovery oracle on one crash image.
fn recover<A: VArena>(out: &mut Out, cfg: &Cfg, img: &[u8], live: &[LiveR], what: &str, ctx: &J, flavour_label: &str, mark_by_interrupted_call: bool) -> bool {
    let path = format!("{}/crash-img.arena", tmp_dir());
    std::fs::write(&path, img).expect("write crash image");
    out.inc("c06_crash_points");
    let mut rc = cfg.clone();
    rc.path = Some(path.clone());
    let detail = |msg: String| {
        let mut d = ctx.clone();
        d.set("crash_point", what);
        d.set("message", msg);
        d
    };
    let a: A = match reopen::<A>(&rc, OpenMode::MapMut, None, false) {
        Ok(a) => a,
        Err(e) => {
            out.viol("C06", "crash-image-does-not-open", detail(format!("map_mut on the crash image failed: {}", e)));
            return false;
        }
    };
    let a: &'static A = Box::leak(Box::new(a));
    let (d, cap, cur) = (a.data_offset(), a.capacity(), a.allocated());
    if cur < d || cur > cap {
        out.viol("C06", "cursor-out-of-range", detail(format!("allocated()={} outside [data_offset={}, capacity={}]", cur, d, cap)));
        return false;
    }
    for l in live {
        let m = &a.memory()[l.off as usize..(l.off + l.cap) as usize];
        if m != &pat(l.id, l.cap as usize)[..] {
            out.viol("C06", "live-bytes-lost", detail(format!("range #{} [{},+{}) that was live before the crash lost its bytes (cursor after reopen {})", l.id, l.off, l.cap, cur)));
            return false;
        }
    }
    // every range that was live must still be below the cursor (fresh space starts there) ...
    for l in live {
        if l.cap > 0 && (l.off + l.cap) as usize > cur {
            out.viol("C06", "live-range-above-cursor-after-crash", detail(format!("range #{} [{},+{}) that was live before the crash lies above the reopened cursor {}: the next fresh allocation hands it out again", l.id, l.off, l.cap, cur)));
            return false;
        }
    }
    out.inc("c06_images_reopened");
    let snap = a.snap();
    // ... and must not be (part of) a segment of the reopened free list
    if snap.complete {
        for n in snap.nodes.iter() {
            let (no, ns) = (n.0, n.0 + 8 + n.1);
            for l in live {
                if l.cap > 0 && no < l.off + l.cap && l.off < ns {
                    out.viol("C06", "live-range-on-free-list-after-crash", detail(format!("segment (node {}, data size {}) of the reopened free list intersects range #{} [{},+{}) that was live before the crash; free list of the image: {:?}", n.0, n.1, l.id, l.off, l.cap, snap.nodes)));
                    return false;
                }
            }
        }
        out.inc("c06_freelist_vs_live_checks");
    }
    let removed_linked = snap.nodes.iter().any(|n| n.1 == 0);
    if removed_linked {
        out.inc("c06_images_with_removed_node_linked");
    }
    // allocation storm under a step budget: every call terminates, nothing live is handed out again
    let budget = 20_000i64;
    let sizes = [1u32, 8, 16, 24, 40, 64, 9, 100, 200, 33];
    let mut got: Vec<(u32, u32)> = vec![];
    let (mut not_zero_reported, mut not_zero, mut zero_checks) = (false, None::<(u32, u32)>, 0u64);
    let mut failures = 0;
    let mut k = 0usize;
    let r = std::panic::catch_unwind(std::panic::AssertUnwindSafe(|| {
        while failures < sizes.len() * 2 && k < 400 {
            let n = sizes[k % sizes.len()];
            k += 1;
            if k % 7 == 3 {
                // typed / aligned requests take the other slow-path and fast-path routines
                BUDGET.with(|b| b.set(budget));
                let r = if k % 2 == 0 { unsafe { a.alloc::<A8<16>>() }.map(|mut x| (Handle::offset(&x), Handle::capacity(&x), Handle::detach(&mut x))) } else { a.alloc_aligned_bytes::<A4<4>>(n).map(|mut x| (Handle::offset(&x), Handle::capacity(&x), Handle::detach(&mut x))) };
                BUDGET.with(|b| b.set(-1));
                match r {
                    Ok((o, c, ())) => got.push((o as u32, c as u32)),
                    Err(_) => failures += 1,
                }
                continue;
            }
            BUDGET.with(|b| b.set(budget));
            let r = a.alloc_bytes(n);
            BUDGET.with(|b| b.set(-1));
            match r {
                Ok(mut h) => {
                    h.detach();
                    if h.capacity() > 0 && !not_zero_reported {
                        let m = &a.memory()[h.offset()..h.offset() + h.capacity()];
                        zero_checks += 1;
                        if m.iter().any(|b| *b != 0) {
                            not_zero_reported = true;
                            not_zero = Some((h.offset() as u32, h.capacity() as u32));
                        }
                    }
                    got.push((h.offset() as u32, h.capacity() as u32));
                    if k % 5 == 0 {
                        // give some back to keep the list busy
                        let (o, c) = (h.buffer_offset() as u32, h.buffer_capacity() as u32);
                        drop(h);
                        got.pop();
                        BUDGET.with(|b| b.set(budget));
                        unsafe { a.dealloc(o, c) };
                        BUDGET.with(|b| b.set(-1));
                    }
                }
                Err(_) => failures += 1,
            }
        }
        BUDGET.with(|b| b.set(budget));
        let _ = a.discard_freelist();
        BUDGET.with(|b| b.set(-1));
    }));
    BUDGET.with(|b| b.set(-1));
    if let Err(p) = r {
        if p.downcast_ref::<Budget>().is_some() {
            // The known finding is: the interrupted call itself (a slow-path allocation or discard_freelist) had marked
            // a node as removed and not yet unlinked it.  A removed node that the interrupted call did not mark, or one
            // left behind by any other kind of call, is a different failure.
            let sig = if removed_linked && mark_by_interrupted_call {
                format!("recovery-nontermination:removed-node-in-crash-image:{}", cfg.freelist.name())
            } else if removed_linked {
                format!("recovery-nontermination:removed-node-not-marked-by-the-interrupted-call:{}", cfg.freelist.name())
            } else {
                format!("recovery-nontermination:other:{}", cfg.freelist.name())
            };
            out.viol("C06", &sig, detail(format!("a call on the reopened arena did not finish within {} atomic accesses (call #{} of the allocation storm); free list of the image: {:?}", budget, k, snap.nodes)));
        } else {
            let (loc, msg) = crate::seq::LAST_PANIC.with(|p| p.borrow().clone());
            out.viol("C06", "recovery-panic", detail(format!("panic on the reopened arena at {}: {}", loc, msg)));
        }
        let _ = flavour_label;
        return removed_linked;
    }
    for g in got.iter() {
        for l in live {
            if g.1 > 0 && g.0 < l.off + l.cap && l.off < g.0 + g.1 {
                out.viol("C06", "live-range-handed-out-again", detail(format!("after reopen alloc_bytes returned [{},+{}) which intersects #{} [{},+{}) that was live before the crash", g.0, g.1, l.id, l.off, l.cap)));
                return removed_linked;
            }
        }
    }
    out.add("c08_zero_checks_after_crash_recovery", zero_checks);
    if let Some((o, n)) = not_zero {
        // C08 (reopened file): judged by C08's own check, which runs a slice of this sweep
        out.viol("C08", "not-zeroed-after-crash-recovery", detail(format!("alloc_bytes on the reopened crash image returned [{},+{}) with non-zero bytes", o, n)));
    }
    out.inc("c06_recovery_storms_completed");
    out.add("c06_recovery_allocations", got.len() as u64);
    // the leaked Box keeps the mapping; unmap by dropping it explicitly
    unsafe { drop(Box::from_raw(a as *const A as *mut A)) };
    removed_linked
}

fn run_history<A: VArena>(out: &mut Out, seed: u64, index: u64, abort_point: Option<(usize, usize)>) {
    let mut rng = Rng::derive(seed, index, 0xC06);
    let mut vrng = Rng::derive(seed, index, 0xAB07);
    let fl = match index % 3 {
        0 => FL::Optimistic,
        1 => FL::Pessimistic,
        _ => FL::None,
    };
    let mut cfg = Cfg { flavour: A::FLAVOUR, backend: Backend::File, freelist: fl, unify: true, reserved: *rng.pick(&[0u32, 5, 8]), min_seg: *rng.pick(&[1u32, 8, 20]), max_align: 8, cap: 0, retries: 5, magic: 3, file_offset: 0, path: None };
    cfg.cap = cfg.prefix() + *rng.pick(&[256u32, 384, 512]);
    let path = format!("{}/crash-{}-{}.arena", tmp_dir(), index, if abort_point.is_some() { "abort" } else { "live" });
    cfg.path = Some(path.clone());
    let a: A = create::<A>(&cfg).expect("create file arena");
    let a: &'static A = Box::leak(Box::new(a));
    MEM.with(|m| m.set((a.raw_ptr() as usize, a.capacity())));
    let mut h = Hist { cfg: cfg.clone(), live: vec![], next_id: 1 };
    // prelude: fill, release every other block, little fresh space
    let mut blocks = vec![];
    for _ in 0..rng.range(4, 10) {
        let n = *rng.pick(&[24u32, 32, 40, 56, 72, 17, 33, 9]);
        if let Ok(mut b) = a.alloc_bytes(n) {
            let id = h.next_id;
            h.next_id += 1;
            let (o, c) = (b.offset(), b.capacity());
            unsafe { std::ptr::copy_nonoverlapping(pat(id, c).as_ptr(), b.as_mut_ptr(), c) };
            blocks.push((b, id, o as u32, c as u32));
        }
    }
    let room = *rng.pick(&[0u32, 16, 48, 100]);
    let want = cfg.cap.saturating_sub(room).max(a.allocated() as u32);
    unsafe { a.rewind(rarena_allocator::ArenaPosition::Start(want)) };
    for (k, (mut b, id, o, c)) in blocks.into_iter().enumerate() {
        if k % 2 == 0 {
            drop(b);
        } else {
            let (bo, bc) = (b.buffer_offset() as u32, b.buffer_capacity() as u32);
            b.detach();
            drop(b);
            h.live.push(LiveR { off: o, cap: c, boff: bo, bcap: bc, id });
        }
    }
    let n_ops = rng.range(4, 10);
    for opi in 0..n_ops as usize {
        let op = match rng.below(15) {
            0..=4 => TOp::AllocBytes(*rng.pick(&[8u32, 16, 24, 40, 9, 33, 64, 1, 100])),
            5 => TOp::AllocTyped(*rng.pick(&[8u8, 9, 6])),
            6..=8 if !h.live.is_empty() => TOp::DropLive(rng.usize(h.live.len())),
            9 => TOp::DiscardFreelist,
            10 | 11 => TOp::AllocAligned(*rng.pick(&[8u8, 6, 2]), *rng.pick(&[0u32, 3, 8, 13, 24, 40, 100])),
            12 => TOp::SetMinSeg(*rng.pick(&[0u32, 1, 8, 20, 48])),
            13 => TOp::IncDiscarded(*rng.pick(&[0u32, 1, 7, 100])),
            14 if opi >= 3 => TOp::Clear,
            _ => TOp::AllocBytes(24),
        };
        // the in-flight range is "don't care"
        let mut live_before = h.live.clone();
        let mut dropping: Option<LiveR> = None;
        if let TOp::DropLive(i) = &op {
            dropping = Some(live_before.remove(*i));
        }
        if matches!(op, TOp::Clear) {
            // clear() gives everything back: nothing is live any more once it has been called
            live_before.clear();
        }
        SNAPS.with(|s| s.borrow_mut().clear());
        EVENT_NO.with(|e| e.set(0));
        if let Some((ao, ae)) = abort_point {
            ABORT_AT.with(|x| x.set(if ao == opi { ae } else { usize::MAX }));
        }
        SNAP_ON.with(|s| s.set(true));
        let mut new_live: Option<LiveR> = None;
        match &op {
            TOp::AllocBytes(n) => {
                if let Ok(mut b) = a.alloc_bytes(*n) {
                    SNAP_ON.with(|s| s.set(false));
                    let id = h.next_id;
                    h.next_id += 1;
                    let c = b.capacity();
                    if c > 0 {
                        unsafe { std::ptr::copy_nonoverlapping(pat(id, c).as_ptr(), b.as_mut_ptr(), c) };
                        new_live = Some(LiveR { off: b.offset() as u32, cap: c as u32, boff: b.buffer_offset() as u32, bcap: b.buffer_capacity() as u32, id });
                    }
                    b.detach();
                }
            }
            TOp::AllocTyped(ty) => {
                let r = if *ty == 8 { unsafe { a.alloc::<A8<8>>() }.map(|mut x| (Handle::offset(&x), Handle::capacity(&x), Handle::buffer_offset(&x), Handle::buffer_capacity(&x), Handle::detach(&mut x))) } else if *ty == 9 { unsafe { a.alloc::<A8<16>>() }.map(|mut x| (Handle::offset(&x), Handle::capacity(&x), Handle::buffer_offset(&x), Handle::buffer_capacity(&x), Handle::detach(&mut x))) } else { unsafe { a.alloc::<A4<4>>() }.map(|mut x| (Handle::offset(&x), Handle::capacity(&x), Handle::buffer_offset(&x), Handle::buffer_capacity(&x), Handle::detach(&mut x))) };
                SNAP_ON.with(|s| s.set(false));
                if let Ok((o, c, bo, bc, ())) = r {
                    let id = h.next_id;
                    h.next_id += 1;
                    unsafe { std::ptr::copy_nonoverlapping(pat(id, c).as_ptr(), a.raw_mut_ptr().add(o), c) };
                    new_live = Some(LiveR { off: o as u32, cap: c as u32, boff: bo as u32, bcap: bc as u32, id });
                }
            }
            TOp::AllocAligned(ty, extra) => {
                let r = if *ty == 8 { a.alloc_aligned_bytes::<A8<8>>(*extra).map(|mut x| (Handle::offset(&x), Handle::capacity(&x), Handle::buffer_offset(&x), Handle::buffer_capacity(&x), Handle::detach(&mut x))) } else if *ty == 2 { a.alloc_aligned_bytes::<A2<2>>(*extra).map(|mut x| (Handle::offset(&x), Handle::capacity(&x), Handle::buffer_offset(&x), Handle::buffer_capacity(&x), Handle::detach(&mut x))) } else { a.alloc_aligned_bytes::<A4<4>>(*extra).map(|mut x| (Handle::offset(&x), Handle::capacity(&x), Handle::buffer_offset(&x), Handle::buffer_capacity(&x), Handle::detach(&mut x))) };
                SNAP_ON.with(|s| s.set(false));
                if let Ok((o, c, bo, bc, ())) = r {
                    if c > 0 {
                        let id = h.next_id;
                        h.next_id += 1;
                        unsafe { std::ptr::copy_nonoverlapping(pat(id, c).as_ptr(), a.raw_mut_ptr().add(o), c) };
                        new_live = Some(LiveR { off: o as u32, cap: c as u32, boff: bo as u32, bcap: bc as u32, id });
                    }
                }
            }
            TOp::DropLive(_) => {
                let l = dropping.clone().unwrap();
                unsafe { a.dealloc(l.boff, l.bcap) };
            }
            TOp::DiscardFreelist => {
                let _ = a.discard_freelist();
            }
            TOp::Clear => {
                let _ = unsafe { a.clear() };
            }
            TOp::SetMinSeg(v) => a.set_minimum_segment_size(*v),
            TOp::IncDiscarded(v) => a.increase_discarded(*v),
        }
        SNAP_ON.with(|s| s.set(false));
        // after the last event
        let final_img = a.memory().to_vec();
        let mut snaps: Vec<(String, Vec<u8>)> = SNAPS.with(|s| std::mem::take(&mut *s.borrow_mut()));
        snaps.push(("after-last-event".to_string(), final_img));
        if A::FLAVOUR == Flavour::Unsync {
            // no atomic accesses: the crash points are the operation boundaries
            snaps = vec![snaps.pop().unwrap()];
        }
        let ctx = crate::jobj!("seed" => seed, "index" => index, "flavour" => format!("{:?}", A::FLAVOUR), "cfg" => cfg.to_json(), "operation_no" => opi, "operation" => format!("{:?}", op),
            "live_before" => J::Arr(live_before.iter().map(|l| J::Str(format!("#{} [{},+{})", l.id, l.off, l.cap))).collect()),
            "replay_args" => format!("crash --seed {} --only {} --flavour {:?}", seed, index, A::FLAVOUR));
        let total = snaps.len();
        if abort_point.is_none() {
            let mut removed_before_call = false;
            for (k, (label, img)) in snaps.iter().enumerate() {
                let what = format!("op#{} {} {}", opi, op_kind(&op), label);
                // k == 0 is the image before the call's first access: a removed node there was not marked by this call
                let marking_call = matches!(op, TOp::AllocBytes(_) | TOp::AllocTyped(_) | TOp::AllocAligned(..) | TOp::DiscardFreelist);
                let by_call = k > 0 && marking_call && !removed_before_call;
                let had = recover::<A>(out, &cfg, img, &live_before, &what, &ctx, "same", by_call);
                if k == 0 {
                    removed_before_call = had;
                }
                if k % 4 == 0 {
                    if A::FLAVOUR == Flavour::Sync {
                        recover::<unsync::Arena>(out, &cfg, img, &live_before, &what, &ctx, "unsync", by_call);
                    } else {
                        recover::<sync::Arena>(out, &cfg, img, &live_before, &what, &ctx, "sync", by_call);
                    }
                }
                let cls = format!("{}:{}", op_kind(&op), label.split(':').skip(1).collect::<Vec<_>>().join(":"));
                out.hash(cls.bytes().fold(k as u64, |h, b| mix(h, b as u64)));
                out.inc(&format!("c06_points.{}", op_kind(&op)));
            }
            // validate the snapshot shortcut against a real process death (sampled)
            if A::FLAVOUR == Flavour::Sync && total > 1 && vrng.chance(1, 6) {
                let e = vrng.usize(total - 1);
                // the child dies in front of the atomic access with that number (zeroing points have no number of their own)
                if let Some(ev) = snaps[e].0.strip_prefix("before#").and_then(|r| r.split(':').next()).and_then(|x| x.parse::<usize>().ok()) {
                    validate_with_abort(out, seed, index, opi, ev, &snaps[e].1);
                }
            }
        }
        if let Some(l) = new_live {
            h.live.push(l);
        }
        if dropping.is_some() || matches!(op, TOp::Clear) {
            h.live = live_before;
        }
        out.inc("c06_operations_swept");
    }
    ABORT_AT.with(|x| x.set(usize::MAX));
    unsafe { drop(Box::from_raw(a as *const A as *mut A)) };
    if abort_point.is_none() {
        let _ = std::fs::remove_file(&path);
    }
    let _ = h.cfg;
}

fn op_kind(op: &TOp) -> &'static str {
    match op {
        TOp::AllocBytes(_) => "alloc_bytes",
        TOp::AllocTyped(_) => "alloc_typed",
        TOp::AllocAligned(..) => "alloc_aligned",
        TOp::DropLive(_) => "dealloc",
        TOp::DiscardFreelist => "discard_freelist",
        TOp::Clear => "clear",
        TOp::SetMinSeg(_) => "set_minimum_segment_size",
        TOp::IncDiscarded(_) => "increase_discarded",
    }
}

fn validate_with_abort(out: &mut Out, seed: u64, index: u64, opi: usize, event: usize, snapshot: &[u8]) {
    let exe = std::env::current_exe().expect("exe");
    let st = std::process::Command::new(exe)
        .args(["crash", "--seed", &seed.to_string(), "--only", &index.to_string(), "--abort-op", &opi.to_string(), "--abort-event", &event.to_string(), "--tmp", &tmp_dir()])
        .stdout(std::process::Stdio::null())
        .stderr(std::process::Stdio::null())
        .status();
    let path = format!("{}/crash-{}-abort.arena", tmp_dir(), index);
    let died = st.map(|s| !s.success()).unwrap_or(false);
    let file = std::fs::read(&path).unwrap_or_default();
    let _ = std::fs::remove_file(&path);
    if !died {
        out.note("abort validation child did not die (crash point not reached)");
        out.inc("c06_abort_validation_unreached");
        return;
    }
    out.inc("c06_abort_validations");
    if file.len() < snapshot.len() || file[..snapshot.len()] != snapshot[..] {
        let p = (0..snapshot.len().min(file.len())).find(|i| file[*i] != snapshot[*i]).unwrap_or(0);
        out.inc("c06_abort_validation_mismatch");
        out.inconclusive(&format!("the file left by a real abort() at op {} event {} of history {} differs from the in-process snapshot at byte {} — the snapshot shortcut is not trustworthy", opi, event, index, p));
    }
}

pub fn child_main(args: &Args) -> i32 {
    let seed = args.u64("seed", 1);
    let mut out = Out::new();
    out.viol_cap = 30;
    crate::seq::install_panic_capture();
    vhk::install(Some(hook_before), None, Some(hook_zeroed));
    if let Some(t) = args.kv.get("tmp") {
        // abort-validation child: write into the parent's tmp dir
        std::env::set_var("VH_TMP_OVERRIDE", t);
    }
    let abort_point = if args.has("abort-op") { Some((args.u64("abort-op", 0) as usize, args.u64("abort-event", 0) as usize)) } else { None };
    let idxs: Vec<u64> = if args.has("only") {
        vec![args.u64("only", 0)]
    } else {
        let (from, count, stride) = (args.u64("from", 0), args.u64("count", 20), args.u64("stride", 1));
        (0..count).map(|k| from + k * stride).collect()
    };
    let t0 = std::time::Instant::now();
    let budget = args.u64("secs", 3600);
    let only_flavour = args.str("flavour", "both");
    for i in idxs {
        if t0.elapsed().as_secs() >= budget {
            out.inc("stopped_on_time_budget");
            break;
        }
        out.at(&format!("crash --seed {} --only {}", seed, i));
        if abort_point.is_some() {
            run_history::<sync::Arena>(&mut out, seed, i, abort_point);
            continue;
        }
        if only_flavour != "Unsync" {
            run_history::<sync::Arena>(&mut out, seed, i, None);
        }
        if i % 4 == 0 && only_flavour != "Sync" {
            run_history::<unsync::Arena>(&mut out, seed, i, None);
        }
        out.inc("c06_histories");
        if i % 40 == 0 {
            out.sample(J::Str(format!("crash --seed {} --only {}", seed, i)));
        }
    }
    out.emit();
    0
}
