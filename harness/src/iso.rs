//! E-ISO: isolated case runner.  C04 — any request size is answered safely.
//! The child prints `AT <case>` before every case, so a death (signal) is attributable.

use crate::arena::*;
use crate::out::Out;
use crate::util::json::J;
use crate::util::rng::{mix, Rng};
use crate::Args;
use rarena_allocator::{sync, unsync, Allocator, ArenaPosition, Error};

#[derive(Clone, Copy, Debug, PartialEq, Eq)]
pub enum Prelude {
    Empty,
    Half,
    Full,
    FullWithList,
    AfterRewind,
    ReadOnly,
    /// file-backed, filled beyond half, closed and reopened writable with a capacity option below the stored cursor
    ReopenedSmaller,
}

struct Built<A: VArena> {
    arena: Box<A>,
    /// accessible ranges that stay live
    live: Vec<(u32, u32)>,
}

/// The configuration a read-only case really runs on: a file-backed arena (always unified layout).
fn ro_cfg(cfg: &Cfg) -> Cfg {
    let mut c = cfg.clone();
    c.backend = Backend::File;
    c.unify = true;
    c.file_offset = 0;
    c.cap = c.prefix() + 1024;
    c.path = Some(format!("{}/iso-ro.arena", tmp_dir()));
    c
}

/// A file-backed arena with a multi-segment free list, live neighbours and fresh space left, closed and
/// opened again read-only (map or map_copy_read_only).
fn build_read_only<A: VArena>(cfg: &Cfg, salt: u64) -> Option<Built<A>> {
    let mut rng = Rng::new(salt ^ 0x70);
    let mut live = vec![];
    {
        let a: A = create::<A>(cfg).ok()?;
        let mut hs = vec![];
        let sizes = [24u32, 9, 40, 64, 17, 100, 33, 48, 16];
        for i in 0..8 {
            let s = sizes[i % sizes.len()] + rng.below(8) as u32;
            if let Ok(mut h) = a.alloc_bytes(s) {
                unsafe { std::ptr::write_bytes(h.as_mut_ptr(), 0xAB, s as usize) };
                hs.push(h);
            }
        }
        for (k, mut h) in hs.into_iter().enumerate() {
            if k % 2 == 0 && k < 6 {
                drop(h);
            } else {
                unsafe { rarena_allocator::Buffer::detach(&mut h) };
                live.push((rarena_allocator::Buffer::offset(&h) as u32, rarena_allocator::Buffer::capacity(&h) as u32));
            }
        }
        let _ = a.flush();
    }
    let mode = if salt % 2 == 0 { OpenMode::Map } else { OpenMode::MapCopyRo };
    let arena: Box<A> = Box::new(reopen::<A>(cfg, mode, None, false).ok()?);
    Some(Built { arena, live })
}

/// The stored cursor lies above the capacity the arena is reopened with: every request must still be answered
/// cleanly (nothing fits into main memory any more).
fn build_reopened_smaller<A: VArena>(cfg: &Cfg, salt: u64) -> Option<Built<A>> {
    let mut rng = Rng::new(salt ^ 0x5A);
    let mut live = vec![];
    let small;
    {
        let a: A = create::<A>(cfg).ok()?;
        let room = cfg.cap - a.data_offset() as u32;
        for _ in 0..6 {
            let s = room / 8 + rng.below(16) as u32;
            if let Ok(mut h) = a.alloc_bytes(s) {
                unsafe { std::ptr::write_bytes(h.as_mut_ptr(), 0xAB, s as usize) };
                unsafe { rarena_allocator::Buffer::detach(&mut h) };
                live.push((rarena_allocator::Buffer::offset(&h) as u32, rarena_allocator::Buffer::capacity(&h) as u32));
            }
        }
        small = (a.data_offset() as u32 + (a.allocated() as u32 - a.data_offset() as u32) / 2).max(cfg.prefix() + 8);
        let _ = a.flush();
    }
    live.retain(|r| r.0 + r.1 <= small);
    let mode = if salt % 2 == 0 { OpenMode::MapMut } else { OpenMode::MapCopy };
    let arena: Box<A> = Box::new(reopen::<A>(cfg, mode, Some(small), false).ok()?);
    Some(Built { arena, live })
}

fn build<A: VArena>(cfg: &Cfg, prelude: Prelude, salt: u64) -> Option<Built<A>> {
    if prelude == Prelude::ReadOnly {
        return build_read_only::<A>(cfg, salt);
    }
    if prelude == Prelude::ReopenedSmaller {
        return build_reopened_smaller::<A>(cfg, salt);
    }
    let mut rng = Rng::new(salt);
    let arena: Box<A> = Box::new(create::<A>(cfg).ok()?);
    let a: &'static A = unsafe { &*(&*arena as *const A) };
    let mut live = vec![];
    let d = a.data_offset() as u32;
    let cap = cfg.cap;
    let room = cap - d;
    match prelude {
        Prelude::Empty => {}
        Prelude::Half if cap > (1 << 30) => unsafe { a.rewind(ArenaPosition::End(40)) },
        Prelude::Half => {
            if let Ok(mut h) = a.alloc_bytes(room / 2) {
                Handle::detach(&mut h);
                live.push((Handle::offset(&h) as u32, Handle::capacity(&h) as u32));
            }
        }
        Prelude::Full => unsafe { a.rewind(ArenaPosition::End(0)) },
        Prelude::FullWithList | Prelude::ReadOnly | Prelude::ReopenedSmaller => {
            // blocks of assorted sizes; every other one is released after the arena has been filled
            let mut hs = vec![];
            let mut left = room;
            let sizes = [24u32, 9, 40, 64, 17, 100, 33, 200, 48, 16];
            let mut i = 0;
            while left > 16 && hs.len() < 12 {
                let s = (sizes[i % sizes.len()] + rng.below(8) as u32).min(left);
                i += 1;
                match a.alloc_bytes(s) {
                    Ok(mut h) => {
                        unsafe { std::ptr::write_bytes(h.as_mut_ptr(), 0xAB, s as usize) };
                        left -= s;
                        hs.push(h);
                    }
                    Err(_) => break,
                }
            }
            unsafe { a.rewind(ArenaPosition::End(0)) };
            for (k, mut h) in hs.into_iter().enumerate() {
                if k % 2 == 0 {
                    drop(h);
                } else {
                    Handle::detach(&mut h);
                    live.push((Handle::offset(&h) as u32, Handle::capacity(&h) as u32));
                }
            }
        }
        Prelude::AfterRewind => {
            if let Ok(mut h) = a.alloc_bytes(room / 3) {
                unsafe { std::ptr::write_bytes(h.as_mut_ptr(), 0xCD, (room / 3) as usize) };
                Handle::detach(&mut h);
            }
            unsafe { a.rewind(ArenaPosition::Start(d + room / 6)) };
        }
    }
    Some(Built { arena, live })
}

#[derive(Clone, Copy, Debug)]
enum Call {
    Bytes(u32, bool),
    Aligned(u8, u32, bool),
    Typed(u8, bool),
}

fn sizes_for(cap: u32, allocated: u32, segs: &[(u32, u32, u32)], rng: &mut Rng) -> Vec<u32> {
    let rem = cap - allocated.min(cap);
    let mut v: Vec<i64> = vec![0, 1, 7, 8, 9, 16, 17];
    for d in [-9i64, -8, -1, 0, 1, 8, 9] {
        v.push(rem as i64 + d);
        v.push(cap as i64 + d);
        v.push((1i64 << 31) + d);
        v.push(u32::MAX as i64 - allocated as i64 + d);
        v.push(u32::MAX as i64 + d);
        v.push(u32::MAX as i64 - cap as i64 + d);
        for s in segs.iter().take(4) {
            v.push(s.1 as i64 + d);
        }
    }
    for _ in 0..4 {
        v.push(rng.next() as u32 as i64);
    }
    let mut out: Vec<u32> = v.into_iter().filter(|x| *x >= 0 && *x <= u32::MAX as i64).map(|x| x as u32).collect();
    out.sort();
    out.dedup();
    out
}

struct Case<'a> {
    cfg: &'a Cfg,
    prelude: Prelude,
    salt: u64,
}

fn run_call<A: VArena>(out: &mut Out, c: &Case, call: Call, at: &str, reuse: &mut Option<Built<A>>) {
    let b = match reuse.take() {
        Some(b) => b,
        None => {
            let Some(b) = build::<A>(c.cfg, c.prelude, c.salt) else {
                out.inc("c04_build_failed");
                return;
            };
            b
        }
    };
    let a: &'static A = unsafe { &*(&*b.arena as *const A) };
    let ro = a.read_only();
    let pre = (a.allocated(), a.discarded(), a.remaining(), a.snap());
    let pre_mem_hash = b.live.iter().map(|r| a.memory()[r.0 as usize..(r.0 + r.1) as usize].iter().fold(0u64, |h, x| mix(h, *x as u64))).fold(0u64, mix);
    out.inc("c04_cases");
    let res: Result<Result<(u32, u32, u32, u32, bool, u64), Error>, ()> = std::panic::catch_unwind(std::panic::AssertUnwindSafe(|| {
        let info = |h: &mut dyn Handle, zero_expected: bool| {
            let (o, cp) = (h.offset() as u32, h.capacity() as u32);
            let z = !zero_expected || cp == 0 || (o as u64 + cp as u64 <= a.capacity() as u64 && a.memory()[o as usize..(o + cp) as usize].iter().all(|x| *x == 0));
            (o, cp, h.buffer_offset() as u32, h.buffer_capacity() as u32, z, a.allocated() as u64)
        };
        match call {
            Call::Bytes(n, false) => a.alloc_bytes(n).map(|mut h| info(&mut h, true)),
            Call::Bytes(n, true) => a.alloc_bytes_owned(n).map(|mut h| info(&mut h, true)),
            Call::Aligned(ty, n, owned) => {
                macro_rules! arm {
                    ($i:expr, $t:ty) => {
                        if ty == $i {
                            return if owned { a.alloc_aligned_bytes_owned::<$t>(n).map(|mut h| info(&mut h, false)) } else { a.alloc_aligned_bytes::<$t>(n).map(|mut h| info(&mut h, false)) };
                        }
                    };
                }
                crate::for_each_type!(arm);
                unreachable!()
            }
            Call::Typed(ty, owned) => {
                macro_rules! arm {
                    ($i:expr, $t:ty) => {
                        if ty == $i {
                            return if owned {
                                unsafe { a.alloc_owned::<$t>() }.map(|mut h| {
                                    if let Some(v) = <$t as MenuType>::make(1) {
                                        rarena_allocator::Owned::write(&mut h, v);
                                    }
                                    info(&mut h, false)
                                })
                            } else {
                                unsafe { a.alloc::<$t>() }.map(|mut h| {
                                    if let Some(v) = <$t as MenuType>::make(1) {
                                        rarena_allocator::RefMut::write(&mut h, v);
                                    }
                                    info(&mut h, false)
                                })
                            };
                        }
                    };
                }
                crate::for_each_type!(arm);
                unreachable!()
            }
        }
    }))
    .map_err(|_| ());
    let detail = |msg: String| crate::jobj!("case" => at, "cfg" => c.cfg.to_json(), "prelude" => format!("{:?}", c.prelude), "call" => format!("{:?}", call), "allocated_before" => pre.0, "capacity" => c.cfg.cap, "message" => msg, "replay_args" => at.replace("AT ", ""));
    let callname = match call {
        Call::Bytes(..) => "alloc_bytes",
        Call::Aligned(..) => "alloc_aligned_bytes",
        Call::Typed(..) => "alloc",
    };
    let res_ok = res.is_ok();
    match res {
        Err(()) => {
            let (loc, msg) = crate::seq::LAST_PANIC.with(|p| p.borrow().clone());
            out.viol("C04", &format!("{}:panic", callname), detail(format!("panicked at {}: {}", loc, msg)));
            return std::mem::forget(b);
        }
        Ok(Err(e)) => {
            out.inc("c04_errors");
            let kind_ok = matches!(e, Error::InsufficientSpace { .. }) || (ro && matches!(e, Error::ReadOnly));
            if ro {
                out.inc("c04_read_only_refusals");
            }
            if !kind_ok {
                out.viol("C04", &format!("{}:wrong-error", callname), detail(format!("error {:?}", e)));
            }
            let post = (a.allocated(), a.discarded(), a.remaining(), a.snap());
            if post != pre {
                out.viol("C04", &format!("{}:failed-call-changed-state", callname), detail(format!("before (allocated, discarded, remaining, list) = {:?}, after {:?}", (pre.0, pre.1, pre.2, &pre.3.nodes), (post.0, post.1, post.2, &post.3.nodes))));
            } else {
                out.inc("c04_unchanged_after_error_checks");
            }
        }
        Ok(Ok((off, cp, boff, bcap, zero, al))) => {
            out.inc("c04_successes");
            if ro && cp > 0 {
                // (a zero-sized request that "succeeds" on a read-only arena occupies nothing; the statement leaves it open)
                out.viol("C04", &format!("{}:succeeded-on-read-only", callname), detail("allocation succeeded on a read-only arena".into()));
            }
            if ro {
                out.inc("c04_read_only_zero_size_ok");
            }
            let (need_exact, need_min, align) = match call {
                Call::Bytes(n, _) => (Some(n as u64), n as u64, 1u32),
                Call::Aligned(ty, n, _) => {
                    let t = ty_info(ty);
                    if t.size == 0 {
                        (Some(n as u64), n as u64, 1)
                    } else {
                        (None, t.size as u64 + n as u64, t.align)
                    }
                }
                Call::Typed(ty, _) => {
                    let t = ty_info(ty);
                    (Some(t.size as u64), t.size as u64, t.align)
                }
            };
            let d = a.data_offset() as u64;
            let capa = a.capacity() as u64;
            if cp > 0 {
                if (off as u64) < d || off as u64 + cp as u64 > al || al > capa {
                    out.viol("C04", &format!("{}:handle-outside-data-area", callname), detail(format!("handle [{},+{}) with data_offset {} allocated {} capacity {}", off, cp, d, al, capa)));
                } else if b.live.iter().any(|r| (off as u64) < r.0 as u64 + r.1 as u64 && (r.0 as u64) < off as u64 + cp as u64) {
                    out.viol("C04", &format!("{}:overlaps-live", callname), detail(format!("handle [{},+{}) overlaps a live range {:?}", off, cp, b.live)));
                } else if !zero {
                    out.viol("C04", &format!("{}:not-zeroed", callname), detail(format!("alloc_bytes buffer [{},+{}) not zero-filled", off, cp)));
                }
            }
            if need_exact.map_or(false, |x| x != cp as u64) || (cp as u64) < need_min || (cp > 0 && align > 1 && off % align != 0) {
                out.viol("C04", &format!("{}:capacity-or-alignment", callname), detail(format!("handle [{},+{}) buffer [{},+{}) for a request needing {} bytes aligned to {}", off, cp, boff, bcap, need_min, align)));
            }
            let post_hash = b.live.iter().map(|r| a.memory()[r.0 as usize..(r.0 + r.1) as usize].iter().fold(0u64, |h, x| mix(h, *x as u64))).fold(0u64, mix);
            if post_hash != pre_mem_hash {
                out.viol("C04", &format!("{}:live-bytes-changed", callname), detail("bytes of a live range changed".into()));
            }
        }
    }
    if (c.cfg.cap > (1 << 30) || c.prelude == Prelude::ReadOnly) && res_ok {
        // huge arenas are expensive to build: keep them while the state is as before
        let post = (a.allocated(), a.discarded(), a.remaining(), a.snap());
        if post == pre {
            *reuse = Some(b);
        }
    }
}

pub fn c04_main(args: &Args) -> i32 {
    let seed = args.u64("seed", 1);
    let mut out = Out::new();
    out.viol_cap = 60;
    crate::seq::install_panic_capture();
    let shard = args.u64("shard", 0);
    let shards = args.u64("shards", 1);
    let huge = args.has("huge");
    let only_case = args.kv.get("case").cloned();
    let mut rng = Rng::new(seed ^ 0xC04);
    let mut cfgs: Vec<Cfg> = vec![];
    let n_cfg = args.u64("cfgs", 24);
    if huge {
        for fl in [FL::Optimistic, FL::Pessimistic, FL::None] {
            for flavour in [Flavour::Sync, Flavour::Unsync] {
                cfgs.push(Cfg { flavour, backend: Backend::Anon, freelist: fl, unify: false, reserved: 0, min_seg: 20, max_align: 8, cap: u32::MAX - (rng.below(3) as u32) * 8, retries: 5, magic: 0, file_offset: 0, path: None });
            }
        }
    } else {
        for i in 0..n_cfg {
            let mut c = sample_cfg(&mut rng, i, false, true);
            let room = c.cap - c.prefix();
            c.cap = c.prefix() + room.min(2048);
            cfgs.push(c);
        }
    }
    let preludes: Vec<Prelude> = if huge { vec![Prelude::Full, Prelude::Half] } else { vec![Prelude::Empty, Prelude::Half, Prelude::Full, Prelude::FullWithList, Prelude::AfterRewind, Prelude::ReadOnly, Prelude::ReopenedSmaller] };
    let mut case_no = 0u64;
    for (ci, cfg0) in cfgs.iter().enumerate() {
        for &prelude in preludes.iter() {
            let mut cfg = cfg0.clone();
            if prelude == Prelude::ReadOnly {
                // file-backed, closed, reopened with map / map_copy_read_only: every request must be answered
                // with ReadOnly (or InsufficientSpace) and leave the state alone — never by a store into the mapping
                cfg = ro_cfg(cfg0);
            }
            if prelude == Prelude::ReopenedSmaller {
                cfg = ro_cfg(cfg0);
            }
            if huge && prelude == Prelude::Half {
                cfg.cap = cfg0.cap;
            }
            let salt = mix(seed, ci as u64);
            // probe state once to choose sizes
            let (allocated, segs) = {
                let r = match cfg.flavour {
                    Flavour::Sync => build::<sync::Arena>(&cfg, prelude, salt).map(|b| (b.arena.allocated() as u32, b.arena.snap().nodes)),
                    Flavour::Unsync => build::<unsync::Arena>(&cfg, prelude, salt).map(|b| (b.arena.allocated() as u32, b.arena.snap().nodes)),
                };
                match r {
                    Some(x) => x,
                    None => continue,
                }
            };
            let sizes = sizes_for(cfg.cap, allocated, &segs, &mut rng);
            let mut calls: Vec<Call> = vec![];
            for &n in sizes.iter() {
                calls.push(Call::Bytes(n, false));
                calls.push(Call::Bytes(n, true));
                for ty in [0u8, 4, 8, 11, 12, 13, 14] {
                    calls.push(Call::Aligned(ty, n, ty == 8));
                }
            }
            for ty in 0..N_TYPES as u8 {
                calls.push(Call::Typed(ty, false));
                calls.push(Call::Typed(ty, true));
            }
            let c = Case { cfg: &cfg, prelude, salt };
            let mut reuse_s: Option<Built<sync::Arena>> = None;
            let mut reuse_u: Option<Built<unsync::Arena>> = None;
            for call in calls {
                case_no += 1;
                if case_no % shards != shard {
                    continue;
                }
                let at = format!("iso-c04 --seed {} {} --cfgs {} --case {}", seed, if huge { "--huge" } else { "" }, n_cfg, case_no);
                if let Some(oc) = &only_case {
                    if *oc != case_no.to_string() {
                        continue;
                    }
                }
                out.at(&at);
                match cfg.flavour {
                    Flavour::Sync => run_call::<sync::Arena>(&mut out, &c, call, &at, &mut reuse_s),
                    Flavour::Unsync => run_call::<unsync::Arena>(&mut out, &c, call, &at, &mut reuse_u),
                }
                let (kind, n) = match call {
                    Call::Bytes(n, o) => (o as u64, n),
                    Call::Aligned(t, n, o) => (2 + t as u64 * 2 + o as u64, n),
                    Call::Typed(t, o) => (100 + t as u64 * 2 + o as u64, 0),
                };
                out.hash(mix(mix(ci as u64, prelude as u64), mix(kind, n as u64)));
                if case_no % 5000 == 1 {
                    out.sample(crate::jobj!("case" => at.clone(), "cfg" => cfg.to_json(), "prelude" => format!("{:?}", prelude), "call" => format!("{:?}", call), "allocated" => allocated, "free_list" => J::Arr(segs.iter().map(|s| J::Str(format!("{}+{}", s.0, s.1))).collect())));
                }
            }
        }
    }
    out.emit();
    0
}
