//! Child-side result accumulator and the line protocol child -> parent.
//!
//! Lines (stdout):
//!   CNT <key> <u64>        summed by the parent
//!   MAX <key> <u64>        max-merged
//!   H <hex64>              hash of a distinct non-trivial case (set union)
//!   SAMPLE <json>          a written-out case (parent keeps a few)
//!   VIOL <prop> <sig> <json>
//!   INCONC <text>
//!   NOTE <text>
//!   AT <text>              progress marker: the case being executed (for crash attribution)

use crate::util::json::J;
use std::collections::{BTreeMap, HashSet};
use std::io::Write;

#[derive(Default)]
pub struct Out {
    pub cnt: BTreeMap<String, u64>,
    pub max: BTreeMap<String, u64>,
    pub hashes: HashSet<u64>,
    pub samples: Vec<J>,
    pub sample_cap: usize,
    pub viols: usize,
    pub viol_cap: usize,
    seen_sigs: HashSet<String>,
    pub quiet_at: bool,
}

impl Out {
    pub fn new() -> Out {
        Out {
            sample_cap: 3,
            viol_cap: 20,
            ..Default::default()
        }
    }
    pub fn add(&mut self, k: &str, n: u64) {
        *self.cnt.entry(k.to_string()).or_insert(0) += n;
    }
    pub fn inc(&mut self, k: &str) {
        self.add(k, 1);
    }
    pub fn maxv(&mut self, k: &str, v: u64) {
        let e = self.max.entry(k.to_string()).or_insert(0);
        if v > *e {
            *e = v;
        }
    }
    pub fn hash(&mut self, h: u64) {
        self.hashes.insert(h);
    }
    pub fn sample(&mut self, j: J) {
        if self.samples.len() < self.sample_cap {
            self.samples.push(j);
        }
    }
    pub fn at(&self, text: &str) {
        if !self.quiet_at {
            let o = std::io::stdout();
            let mut l = o.lock();
            let _ = writeln!(l, "AT {}", text);
            let _ = l.flush();
        }
    }
    /// Reports a violation immediately (flushed), de-duplicated by (prop, sig) within this child.
    pub fn viol(&mut self, prop: &str, sig: &str, detail: J) {
        self.viols += 1;
        let key = format!("{} {}", prop, sig);
        if self.seen_sigs.contains(&key) && self.viols > 1 {
            self.add(&format!("dup_viol.{}", prop), 1);
            return;
        }
        if self.seen_sigs.len() >= self.viol_cap {
            return;
        }
        self.seen_sigs.insert(key);
        let o = std::io::stdout();
        let mut l = o.lock();
        let _ = writeln!(l, "VIOL {} {} {}", prop, sig.replace(' ', "_"), detail.dump());
        let _ = l.flush();
    }
    pub fn inconclusive(&self, text: &str) {
        println!("INCONC {}", text.replace('\n', " "));
    }
    pub fn note(&self, text: &str) {
        println!("NOTE {}", text.replace('\n', " "));
    }
    pub fn emit(&self) {
        let o = std::io::stdout();
        let mut l = o.lock();
        for (k, v) in &self.cnt {
            let _ = writeln!(l, "CNT {} {}", k, v);
        }
        for (k, v) in &self.max {
            let _ = writeln!(l, "MAX {} {}", k, v);
        }
        for h in &self.hashes {
            let _ = writeln!(l, "H {:016x}", h);
        }
        for s in &self.samples {
            let _ = writeln!(l, "SAMPLE {}", s.dump());
        }
        let _ = writeln!(l, "DONE");
        let _ = l.flush();
    }
}
