//! vh — verification harness for rarena-allocator (runtime monitoring).
#[macro_use]
pub mod util;
pub mod arena;
pub mod bufs;
pub mod crash;
pub mod drv;
pub mod files;
pub mod free;
pub mod iso;
pub mod layout;
pub mod model;
pub mod out;
pub mod readers;
pub mod runner;
pub mod sanit;
pub mod sched;
pub mod seq;
pub mod watch;

use std::collections::HashMap;

#[global_allocator]
static GLOBAL: watch::CountingAlloc = watch::CountingAlloc;

pub struct Args {
    pub pos: Vec<String>,
    pub kv: HashMap<String, String>,
}

impl Args {
    pub fn parse(v: &[String]) -> Args {
        let mut pos = vec![];
        let mut kv = HashMap::new();
        let mut i = 0;
        while i < v.len() {
            if let Some(k) = v[i].strip_prefix("--") {
                if i + 1 < v.len() && !v[i + 1].starts_with("--") {
                    kv.insert(k.to_string(), v[i + 1].clone());
                    i += 2;
                } else {
                    kv.insert(k.to_string(), "1".to_string());
                    i += 1;
                }
            } else {
                pos.push(v[i].clone());
                i += 1;
            }
        }
        Args { pos, kv }
    }
    pub fn u64(&self, k: &str, d: u64) -> u64 {
        self.kv.get(k).and_then(|s| s.parse().ok()).unwrap_or(d)
    }
    pub fn str(&self, k: &str, d: &str) -> String {
        self.kv.get(k).cloned().unwrap_or_else(|| d.to_string())
    }
    pub fn has(&self, k: &str) -> bool {
        self.kv.contains_key(k)
    }
}

fn main() {
    let argv: Vec<String> = std::env::args().skip(1).collect();
    if argv.is_empty() {
        eprintln!("usage: vh <engine> [args]");
        std::process::exit(3);
    }
    let args = Args::parse(&argv[1..]);
    let code = match argv[0].as_str() {
        "seq" => seq::child_main(&args),
        "bufs" => bufs::child_main(&args),
        "readers" => readers::c15_main(&args),
        "iso-c04" => iso::c04_main(&args),
        "files" => files::child_main(&args),
        "sched" => sched::child_main(&args),
        "free" => free::child_main(&args),
        "crash" => crash::child_main(&args),
        "layout" => layout::child_main(&args),
        "cksum" => readers::c19_main(&args),
        "drive" => drive::main(&args),
        other => {
            eprintln!("unknown engine {}", other);
            3
        }
    };
    arena::cleanup_tmp();
    std::process::exit(code);
}

pub mod drive;
