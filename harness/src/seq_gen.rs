// ---- generator + child entry (included into seq.rs) ----------------------------------------

const SMALL_SIZES: [u32; 21] = [0, 1, 2, 7, 8, 9, 15, 16, 17, 24, 31, 32, 33, 40, 48, 63, 64, 100, 128, 200, 256];

impl<'o> Hist<'o> {
    fn pick_size(&mut self) -> u32 {
        let rem = self.model.cap.saturating_sub(self.model.cursor);
        let r = self.rng.below(100);
        if r < 30 {
            *self.rng.pick(&SMALL_SIZES)
        } else if r < 50 {
            let d = *self.rng.pick(&[0i64, 0, 1, -1, 8, -8, -7, -9, 2]);
            (rem as i64 + d).clamp(0, 2 * self.model.cap as i64) as u32
        } else if r < 75 && !self.model.list.is_empty() {
            let n = *self.rng.pick(&self.model.list);
            let d = *self.rng.pick(&[0i64, 0, 1, -1, 8, -8, -9, 9, -16, -7, -17, -(self.model.min_seg as i64) - 8, -(self.model.min_seg as i64) - 9, -(self.model.min_seg as i64) - 7]);
            (n.1 as i64 + d).clamp(0, 2 * self.model.cap as i64) as u32
        } else if r < 93 {
            self.rng.range(1, 64) as u32
        } else if r < 98 {
            self.rng.range(1, (self.model.cap / 4).max(2) as u64) as u32
        } else {
            self.rng.range(self.model.cap as u64 / 2, 2 * self.model.cap as u64) as u32
        }
    }

    fn safe_floor(&self) -> u32 {
        // lowest cursor position that keeps every live range and every list node below it
        let mut lo = self.model.data_offset as u64;
        for e in self.live.iter() {
            lo = lo.max(e.off as u64 + e.cap as u64).max(e.boff as u64 + e.bcap as u64 + if e.recycled { 8 } else { 0 });
        }
        for n in self.model.list.iter() {
            lo = lo.max(n.0 as u64 + 8 + n.1 as u64);
        }
        for f in self.forever.iter() {
            let _ = f;
        }
        lo.min(self.model.cap as u64) as u32
    }

    pub fn gen_step(&mut self) {
        let k = self.knobs.clone();
        let handles: Vec<usize> = (0..self.live.len()).filter(|i| self.live[*i].has_handle).collect();
        let leaked: Vec<usize> = (0..self.live.len()).filter(|i| !self.live[*i].has_handle).collect();
        let alive: Vec<usize> = (0..self.arena_vals.len()).filter(|i| self.arena_vals[*i]).collect();
        let writable = !self.model.ro;
        let is_file = self.runners[0].cfg().backend == Backend::File;
        let mut w: Vec<(u64, u8)> = vec![];
        if handles.len() < 48 {
            w.push((40, 0));
        }
        if !handles.is_empty() {
            w.push((8, 1));
            w.push((24, 2));
            w.push((3, 3));
        }
        if !leaked.is_empty() {
            w.push((3, 4));
        }
        w.push((2, 5));
        w.push((1, 6));
        w.push((k.w_discard, 7));
        w.push((k.w_rewind, 8));
        if writable {
            w.push((k.w_clear, 9));
        }
        if self.can_truncate() {
            w.push((k.w_truncate, 10));
        }
        if is_file && writable {
            w.push((k.w_reopen, 11));
        }
        if alive.len() < 4 {
            w.push((k.w_clone, 12));
        }
        if alive.len() > 1 {
            w.push((k.w_clone, 13));
        }
        let total: u64 = w.iter().map(|x| x.0).sum();
        let mut r = self.rng.below(total.max(1));
        let mut choice = 0u8;
        for (wt, c) in w {
            if r < wt {
                choice = c;
                break;
            }
            r -= wt;
        }
        match choice {
            0 => {
                let via = *self.rng.pick(&alive);
                let owned = self.rng.below(100) < k.w_owned;
                let t = self.rng.below(100);
                if t < k.w_typed / 2 {
                    let ty = self.rng.below(if cfg!(miri) { 15 } else { 18 }) as u8;
                    let ti = ty_info(ty);
                    self.do_alloc(Req::Typed { size: ti.size, align: ti.align }, ty, owned, via);
                } else if t < k.w_typed {
                    let mut ty = self.rng.below(15) as u8;
                    if !cfg!(miri) && self.rng.chance(1, 12) {
                        ty = 17;
                    }
                    let ti = ty_info(ty);
                    let extra = if self.rng.chance(1, 4) { 0 } else { self.pick_size() / 2 };
                    self.do_alloc(Req::Aligned { size: ti.size, align: ti.align, extra }, ty, owned, via);
                } else {
                    let n = self.pick_size();
                    self.do_alloc(Req::Bytes(n), 0, owned, via);
                }
            }
            1 => {
                let i = *self.rng.pick(&handles);
                let s = self.rng.bool();
                self.do_fill(i, s);
            }
            2 => {
                // prefer releasing something that is not on top
                let mut i = *self.rng.pick(&handles);
                if self.rng.chance(2, 3) {
                    let j = *self.rng.pick(&handles);
                    if self.live[j].boff < self.live[i].boff {
                        i = j;
                    }
                }
                if self.live[i].gen == 0 && self.rng.below(100) < k.fill_prob {
                    let s = self.rng.bool();
                    self.do_fill(i, s);
                }
                self.do_release(i, false);
            }
            3 => {
                let i = *self.rng.pick(&handles);
                if self.live[i].gen == 0 {
                    self.do_fill(i, false);
                }
                self.do_detach_drop(i);
            }
            4 => {
                let i = *self.rng.pick(&leaked);
                if writable {
                    self.do_release(i, true);
                }
            }
            5 => {
                let v = *self.rng.pick(&[1u32, 1, 8, 16, 20, 24, 48, 100, 200, 7, 9, 0]);
                if writable {
                    self.do_set_min_seg(v);
                }
            }
            6 => {
                let v = *self.rng.pick(&[0u32, 1, 7, 100, 65536]);
                if writable && (self.model.discarded as u64 + v as u64) < (1 << 31) {
                    self.do_inc_discarded(v);
                }
            }
            7 => self.do_discard_freelist(),
            8 => {
                if !writable {
                    return;
                }
                let cur = self.model.cursor;
                let cap = self.model.cap;
                let r = self.rng.below(10);
                if r < 4 {
                    // forward
                    let t = if self.rng.bool() { cap - (self.rng.below(17) as u32).min(cap - cur) } else { cur + self.rng.below((cap - cur) as u64 + 1) as u32 };
                    let pos = match self.rng.below(3) {
                        0 => RewPos::Start(t),
                        1 => RewPos::End(cap - t),
                        _ => RewPos::Current(t as i64 - cur as i64),
                    };
                    self.do_rewind(pos);
                } else if r < 8 || k.w_clear == 0 {
                    let lo = self.safe_floor().min(cur);
                    let t = lo + self.rng.below((cur - lo) as u64 + 1) as u32;
                    let pos = match self.rng.below(3) {
                        0 => RewPos::Start(t),
                        1 => RewPos::End(cap - t),
                        _ => RewPos::Current(t as i64 - cur as i64),
                    };
                    self.do_rewind(pos);
                } else {
                    // arbitrary position (boundary-dense); terminal: followed by clear()
                    let d = self.model.data_offset;
                    let pos = match self.rng.below(3) {
                        0 => RewPos::Start(*self.rng.pick(&[0, 1, d.wrapping_sub(1), d, d + 1, cur, cap - 1, cap, cap.wrapping_add(1), u32::MAX, 1 << 31, cur / 2])),
                        1 => RewPos::End(*self.rng.pick(&[0, 1, cap - d, cap - d + 1, (cap - d).wrapping_sub(1), cap, cap.wrapping_add(1), u32::MAX, 1 << 31, cap - cur])),
                        _ => RewPos::Current(*self.rng.pick(&[0i64, 1, -1, -(cur as i64), -(cur as i64) + 1, -(cur as i64) - 1, cap as i64 - cur as i64, cap as i64 - cur as i64 + 1, cap as i64 - cur as i64 - 1, d as i64 - cur as i64, d as i64 - cur as i64 - 1, i64::MIN, i64::MAX, i64::MIN + 1, i64::MAX - cur as i64, i64::MAX - cur as i64 + 1, 1 << 31, -(1 << 31), 1 << 32, -(1 << 32), u32::MAX as i64, -(u32::MAX as i64)])),
                    };
                    self.do_rewind(pos);
                    if !self.failed {
                        self.check_invariants();
                    }
                    // with an empty free list nothing above the new cursor can be in use any more: an
                    // allocation from the rewound position must start at or after data_offset and leave
                    // the reserved prefix and header alone
                    if !self.failed && self.model.list.is_empty() && self.rng.bool() {
                        let via = *self.rng.pick(&alive);
                        let n = *self.rng.pick(&[1u32, 8, 16, 40]);
                        self.do_alloc(Req::Bytes(n), 0, false, via);
                        if !self.failed {
                            self.check_invariants();
                        }
                    }
                    if !self.failed {
                        self.do_clear();
                    }
                }
            }
            9 => self.do_clear(),
            10 => {
                let cap = self.model.cap as u64;
                let cur = self.model.cursor as u64;
                let n = match self.rng.below(9) {
                    8 => self.cfg.cap as u64, // the capacity the arena was created with (after other truncates)
                    0 => 0,
                    1 => cur,
                    2 => cur.saturating_sub(1),
                    3 => cur + 1,
                    4 => cap + self.rng.range(1, 64),
                    5 => self.rng.range(cur, cap.max(cur)),
                    6 => self.rng.below(4 * cap.min(16384) + 1),
                    _ => cap,
                };
                self.do_truncate(n.min(1 << 20) as u32);
            }
            11 => {
                let mode = match self.rng.below(10) {
                    0..=5 => OpenMode::MapMut,
                    6..=7 => OpenMode::MapCopy,
                    8 => OpenMode::Map,
                    _ => OpenMode::MapCopyRo,
                };
                let cap_choice = self.rng.below(3) as u8;
                let (flush, create, swap) = (self.rng.bool(), self.rng.chance(1, 4), self.rng.chance(1, 4) && !self.knobs.force_unsync);
                self.do_reopen(mode, cap_choice, flush, create, swap);
            }
            12 => self.do_clone_arena(),
            13 => {
                let cand: Vec<usize> = alive.iter().copied().filter(|i| !self.live.iter().any(|e| e.has_handle && e.via == Some(*i))).collect();
                if !cand.is_empty() && alive.len() > 1 {
                    let i = *self.rng.pick(&cand);
                    self.do_drop_arena(i);
                }
            }
            _ => {}
        }
    }
}

pub fn expected_describe(cfg: &Cfg, ro: bool) -> Vec<(&'static str, String)> {
    let file = cfg.backend == Backend::File;
    let map = cfg.backend != Backend::Vec;
    vec![
        ("unify", cfg.effective_unify().to_string()),
        ("read_only", ro.to_string()),
        ("is_map", map.to_string()),
        ("is_ondisk", file.to_string()),
        ("is_inmemory", (!file).to_string()),
        ("is_map_anon", (cfg.backend == Backend::Anon).to_string()),
        ("is_map_file", file.to_string()),
        ("magic_version", cfg.magic.to_string()),
        ("version", "0".to_string()),
        ("page_size", "4096".to_string()),
        ("reserved_bytes", cfg.reserved.to_string()),
        ("reserved_slice_len", cfg.reserved.to_string()),
        ("data_offset", cfg.prefix().to_string()),
        ("path", if file { "some".to_string() } else { "none".to_string() }),
    ]
}

pub fn run_history(seed: u64, index: u64, knobs: &Knobs, out: &mut Out) {
    // one history in five runs with spurious compare_exchange_weak failures injected (sync::Arena only has them)
    SPURIOUS.with(|c| c.set((mix(seed, index) | 1, if index % 5 == 2 { 25 } else { 0 })));
    let inj0 = SPURIOUS_INJECTED.with(|c| c.get());
    run_history_inner(seed, index, knobs, out);
    SPURIOUS.with(|c| c.set((0, 0)));
    out.add("spurious_cas_failures_injected", SPURIOUS_INJECTED.with(|c| c.get()) - inj0);
}

fn run_history_inner(seed: u64, index: u64, knobs: &Knobs, out: &mut Out) {
    let mut rng = Rng::derive(seed, index, knobs.prop.bytes().fold(7u64, |h, b| mix(h, b as u64)));
    let mut cfg = sample_cfg(&mut rng, index, knobs.allow_file, knobs.allow_mmap);
    if knobs.force_file {
        cfg.backend = Backend::File;
        cfg.cap = cfg.cap - cfg.prefix().min(cfg.cap);
        let room = cfg.cap;
        cfg.cap = cfg.prefix() + room.min(8192);
    }
    if knobs.force_unsync {
        cfg.flavour = Flavour::Unsync;
    }
    // a third of the C16 histories run without the lock-step backends (so that file arenas with
    // Options::unify == false, which are forced to the unified layout, are exercised too)
    let mut knobs_local = knobs.clone();
    if knobs.want_other_backend && index % 3 == 0 {
        knobs_local.want_other_backend = false;
    }
    let knobs = &knobs_local;
    if knobs.want_other_backend {
        let room = cfg.cap - cfg.prefix().min(cfg.cap);
        cfg.unify = true;
        cfg.file_offset = 0;
        cfg.cap = cfg.prefix() + room.min(8192);
    }
    if cfg.backend == Backend::File {
        cfg.path = Some(format!("{}/h-{}.arena", tmp_dir(), index));
    }
    for a in cfg.axis_keys() {
        out.inc(&format!("axis.{}", a));
    }
    let primary = match new_runner(&cfg) {
        Ok(r) => r,
        Err(e) => {
            out.viol("C16", "construction-failed", crate::jobj!("cfg" => cfg.to_json(), "error" => e, "message" => "capacity holds the prefix but construction failed"));
            return;
        }
    };
    let mut h = Hist {
        model: Model::new(cfg.cap, cfg.prefix(), cfg.freelist, cfg.min_seg),
        cfg: cfg.clone(),
        knobs: knobs.clone(),
        rng,
        runners: vec![primary],
        rels: vec![Rel::Primary],
        live: vec![],
        forever: vec![],
        reserved_pat: vec![],
        next_id: 1,
        steps: 0,
        hash: mix(seed, index),
        flags: Flags::default(),
        ops_log: vec![],
        out,
        failed: false,
        seed,
        index,
        arena_vals: vec![true],
        prev_mem: vec![],
        lowering: "top-released",
        after_reopen: false,
        after_discard: false,
        watch_slots: vec![],
        truncated: false,
        truncated_since_clear: false,
        resync: false,
        foreign_viols: 0,
        tmp_recycled: false,
        unobserved_releases: 0,
        closed: false,
        pending_early_drops: (false, 0),
        stay_read_only: false,
    };
    h.log(format!("cfg {}", cfg.to_json().dump()));
    if knobs.want_other_flavour || h.rng.chance(1, 5) {
        let mut c = cfg.clone();
        c.flavour = if c.flavour == Flavour::Sync { Flavour::Unsync } else { Flavour::Sync };
        if c.backend == Backend::File {
            c.path = Some(format!("{}/h-{}-twin.arena", tmp_dir(), index));
        }
        if !knobs.force_unsync {
            if let Ok(r) = new_runner(&c) {
                h.runners.push(r);
                h.rels.push(Rel::OtherFlavour);
            }
        }
    }
    if knobs.want_other_backend {
        for b in [Backend::Vec, Backend::Anon, Backend::File] {
            if b == cfg.backend || (b == Backend::File && !knobs.allow_file) || (b == Backend::Anon && !knobs.allow_mmap) {
                continue;
            }
            let mut c = cfg.clone();
            c.backend = b;
            c.file_offset = 0;
            c.path = if b == Backend::File { Some(format!("{}/h-{}-b.arena", tmp_dir(), index)) } else { None };
            if let Ok(r) = new_runner(&c) {
                h.runners.push(r);
                h.rels.push(Rel::OtherBackend);
            }
        }
    }
    if h.runners.len() > 1 {
        h.flags.multi = true;
    }
    h.reserved_pat = pattern(0xFEED, index as u32, cfg.reserved as usize);
    let pat = h.reserved_pat.clone();
    for r in h.runners.iter_mut() {
        r.write_reserved(&pat);
    }
    // static layout / accessor contract (C16)
    for i in 0..h.runners.len() {
        let d = h.runners[i].describe();
        let rc = h.runners[i].cfg().clone();
        for (k, v) in expected_describe(&rc, false) {
            let got = d.iter().find(|x| x.0 == k).map(|x| x.1.clone()).unwrap_or_default();
            if got != v {
                h.viol(&["C16"], &format!("accessor:{}", k), format!("{}() = {} but the arena was created with {} ({:?})", k, got, v, rc.backend));
                break;
            }
        }
        let g = |k: &str| d.iter().find(|x| x.0 == k).map(|x| x.1.clone()).unwrap_or_default();
        let want_opt = if rc.effective_unify() { g("opt_data_offset_unify") } else { g("opt_data_offset") };
        if g("data_offset") != want_opt || g("capacity") != rc.cap.to_string() || g("minimum_segment_size") != rc.min_seg.to_string() || g("memory_len") != rc.cap.to_string() {
            h.viol(&["C16"], "accessor:layout", format!("data_offset()={} Options says {}; capacity()={} (asked {}); minimum_segment_size()={} (asked {}); memory().len()={}", g("data_offset"), want_opt, g("capacity"), rc.cap, g("minimum_segment_size"), rc.min_seg, g("memory_len")));
        }
        h.out.inc("c16_accessor_tables_checked");
    }
    h.check_invariants();
    let n_steps = h.rng.range(knobs.min_steps, knobs.max_steps);
    while h.steps < n_steps && !h.failed && !h.closed {
        h.steps += 1;
        h.gen_step();
        h.check_invariants();
    }
    h.out.add("steps", h.steps);
    // C13: some file-backed histories end in a read-only session (map / map_copy_read_only), so that the
    // teardown clauses (refs, unmapping, remove-on-drop exactly when the last value goes) are observed there too
    if knobs.prop == "C13" && !h.failed && !h.closed && !h.model.ro && h.runners[0].cfg().backend == Backend::File && index % 3 == 1 {
        let mode = if index % 2 == 0 { OpenMode::Map } else { OpenMode::MapCopyRo };
        h.stay_read_only = true;
        h.do_reopen(mode, 2, true, false, false);
        if !h.failed && !h.closed && h.model.ro {
            h.do_clone_arena();
            h.check_invariants();
            h.out.inc("c13_teardowns_of_read_only_sessions");
        }
    }
    h.finish();
    let f = h.flags.clone();
    let nontrivial = match knobs.prop.as_str() {
        "C01" => f.recycled_with_2_live,
        "C03" => f.typed_recycled && f.typed_fresh_odd,
        "C05" => f.reopen_nontrivial,
        "C08" => f.zero_nonvacuous_reuse,
        "C10" => f.slow_with_2_nodes,
        "C11" => f.multi && f.slow_any,
        "C13" => f.owned_and_clone,
        "C16" => f.multi,
        "C17" => f.rewind_or_clear_with_list,
        "C18" => f.truncate_nontrivial,
        "C20" => f.discard_nontrivial,
        _ => f.slow_any,
    };
    let (hash, failed, idx) = (h.hash, h.failed, h.index);
    if nontrivial && !failed {
        h.out.hash(hash);
    }
    h.out.inc("histories");
    if idx % 97 == 0 || h.out.samples.is_empty() {
        let ops: Vec<J> = h.ops_log.iter().take(40).map(|s| J::Str(s.clone())).collect();
        h.out.sample(crate::jobj!("index" => idx, "steps" => h.steps, "nontrivial" => nontrivial, "ops_prefix" => J::Arr(ops)));
    }
    // clean files
    let paths: Vec<String> = h.runners.iter().filter_map(|r| r.cfg().path.clone()).collect();
    drop(h);
    for p in paths {
        let _ = std::fs::remove_file(p);
    }
    let _ = std::fs::remove_file(format!("{}/h-{}.arena", tmp_dir(), index));
    let _ = std::fs::remove_file(format!("{}/h-{}-twin.arena", tmp_dir(), index));
    let _ = std::fs::remove_file(format!("{}/h-{}-b.arena", tmp_dir(), index));
}

thread_local! {
    pub static LAST_PANIC: std::cell::RefCell<(String, String)> = std::cell::RefCell::new((String::new(), String::new()));
}

pub fn install_panic_capture() {
    std::panic::set_hook(Box::new(|info| {
        let loc = info.location().map(|l| format!("{}:{}", l.file(), l.line())).unwrap_or_default();
        let msg = if let Some(s) = info.payload().downcast_ref::<&str>() {
            s.to_string()
        } else if let Some(s) = info.payload().downcast_ref::<String>() {
            s.clone()
        } else {
            "panic".to_string()
        };
        LAST_PANIC.with(|p| *p.borrow_mut() = (loc, msg));
    }));
}

pub fn child_main(args: &Args) -> i32 {
    let prop = args.str("prop", "C01");
    let seed = args.u64("seed", 1);
    let knobs = Knobs::for_prop(&prop);
    let mut out = Out::new();
    install_panic_capture();
    rarena_allocator::verif_hooks::install(Some(seq_hook_before), None, None);
    let t0 = std::time::Instant::now();
    let budget = args.u64("secs", 3600);
    let idxs: Vec<u64> = if args.has("only") {
        out.sample_cap = 1;
        vec![args.u64("only", 0)]
    } else {
        let from = args.u64("from", 0);
        let count = args.u64("count", 100);
        let stride = args.u64("stride", 1);
        (0..count).map(|k| from + k * stride).collect()
    };
    for idx in idxs {
        if t0.elapsed().as_secs() >= budget {
            out.inc("stopped_on_time_budget");
            break;
        }
        out.at(&format!("seq --prop {} --seed {} --only {}", prop, seed, idx));
        let r = std::panic::catch_unwind(std::panic::AssertUnwindSafe(|| run_history(seed, idx, &knobs, &mut out)));
        if r.is_err() {
            let (loc, msg) = LAST_PANIC.with(|p| p.borrow().clone());
            if loc.contains("rarena-allocator") {
                out.viol(
                    "C04",
                    &format!("panic:{}", loc.rsplit('/').next().unwrap_or("").split(':').next().unwrap_or("")),
                    crate::jobj!("location" => loc, "message" => msg, "replay_args" => format!("seq --prop {} --seed {} --only {}", prop, seed, idx)),
                );
                out.inc("arena_panics");
            } else {
                out.inconclusive(&format!("harness panic at {}: {} (history {})", loc, msg, idx));
                out.inc("harness_panics");
            }
        }
    }
    out.emit();
    0
}

pub fn dump_history(seed: u64, index: u64, prop: &str) {
    // debugging aid: VH_DUMP=1 prints every op of the replayed history to stderr
    let _ = (seed, index, prop);
}
