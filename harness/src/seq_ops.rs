// ---- operations (included into seq.rs) ---------------------------------------------------

impl<'o> Hist<'o> {
    fn state_tuple(&self) -> (St, Vec<(u32, u32, u32)>) {
        (self.runners[0].state(), self.runners[0].snap().nodes)
    }

    fn expect_unchanged(&mut self, props: &[&str], sig: &str, what: &str, pre: &(St, Vec<(u32, u32, u32)>)) -> bool {
        let post = self.state_tuple();
        let mut a = pre.0.clone();
        let mut b = post.0.clone();
        a.refs = 0;
        b.refs = 0;
        if a != b || pre.1 != post.1 {
            let msg = format!("{} changed the arena: before {:?} {:?} after {:?} {:?}", what, pre.0, pre.1, post.0, post.1);
            self.viol(props, sig, msg);
            return false;
        }
        true
    }

    pub fn do_alloc(&mut self, req: Req, ty: u8, owned: bool, via: usize) {
        let id = self.next_id;
        self.next_id += 1;
        self.log(format!("alloc #{} {:?} ty={} owned={} via={}", id, req, ty, owned, via));
        let predict = self.model.predict_alloc(req);
        let pre = self.state_tuple();
        let drops0 = drops_now();
        let mut obs = vec![];
        for r in self.runners.iter_mut() {
            obs.push(r.alloc(id, req, ty, owned, via));
        }
        // a zero-sized value has no place to live: `write` may drop it on the spot (counted, so that the total
        // over the life of the handle can be checked); anything else must not be dropped by an allocation
        let zst_dropper = matches!(req, Req::Typed { size: 0, .. }) && ty_info(ty).needs_drop;
        let early_total = drops_now() - drops0;
        let nr0 = self.runners.len();
        if early_total != 0 && !(zst_dropper && early_total == nr0) {
            self.viol(&["C13"], "value-dropped-at-alloc", format!("{} values dropped during an allocation", early_total));
            return;
        }
        self.pending_early_drops = (zst_dropper, early_total / nr0.max(1));
        if !self.compare_obs("alloc", &obs) {
            return;
        }
        let Obs::Alloc(res) = obs[0].clone() else { unreachable!() };
        self.out.inc("alloc_calls");
        match res {
            Err(k) => {
                self.out.inc(&format!("alloc_err.{:?}", k));
                // C04: a failed call leaves everything as it was
                if !self.expect_unchanged(&["C04"], "failed-alloc-changed-state", "a failed allocation", &pre) {
                    return;
                }
                match predict {
                    Predict::ReadOnly => {
                        if k != ErrKind::ReadOnly {
                            self.viol(&["C09", "C04"], "readonly-alloc-wrong-error", format!("read-only arena answered {:?}", k));
                        }
                    }
                    Predict::Null => {
                        self.viol(&["C03"], "zero-size-request-failed", format!("zero-sized request {:?} failed with {:?}", req, k));
                    }
                    Predict::Fast { .. } => {
                        // no property says fresh space must be used whenever it fits, except C18 after truncate
                        if self.truncated {
                            self.viol(&["C18"], "alloc-fails-though-it-fits", format!("{:?} fits the capacity {} (allocated {}) but failed with {:?}", req, self.model.cap, self.model.cursor, k));
                        } else {
                            self.diverge(format!("{:?} fits fresh space but failed with {:?}", req, k));
                        }
                    }
                    Predict::Slow { must_succeed, ref may } => {
                        if must_succeed {
                            let msg = format!("{:?} failed with {:?} although the {} policy has a fitting segment among {:?}", req, k, self.model.fl.name(), may);
                            self.viol(&["C10"], "slow-path-failed-against-policy", msg);
                        } else if k != ErrKind::Insufficient {
                            self.viol(&["C04"], "wrong-error-kind", format!("{:?} failed with {:?}", req, k));
                        }
                    }
                    Predict::Fail => {
                        if k != ErrKind::Insufficient {
                            self.viol(&["C04"], "wrong-error-kind", format!("{:?} failed with {:?}", req, k));
                        }
                    }
                }
            }
            Ok(h) => {
                self.on_alloc_ok(id, req, ty, owned, via, h, predict, pre);
            }
        }
    }

    #[allow(clippy::too_many_arguments)]
    fn on_alloc_ok(&mut self, id: u64, req: Req, ty: u8, owned: bool, via: usize, h: HInfo, predict: Predict, pre: (St, Vec<(u32, u32, u32)>)) {
        let is_null = matches!(predict, Predict::Null) && h.cap == 0;
        self.tmp_recycled = false;
        self.alloc_policy_checks(id, req, ty, owned, via, h.clone(), predict, pre);
        if self.failed || is_null {
            return;
        }
        self.alloc_register(id, req, ty, owned, via, h);
    }

    #[allow(clippy::too_many_arguments)]
    fn alloc_policy_checks(&mut self, id: u64, req: Req, ty: u8, owned: bool, via: usize, h: HInfo, predict: Predict, pre: (St, Vec<(u32, u32, u32)>)) {
        let kind = match req {
            Req::Bytes(_) => HKind::Bytes,
            Req::Aligned { .. } => HKind::Aligned(ty),
            Req::Typed { .. } => HKind::Typed(ty),
        };
        // ---- C03: capacity / alignment
        if let Some(c) = req.exact_capacity() {
            if h.cap as u64 != c {
                self.viol(&["C03"], "capacity-mismatch", format!("{:?} returned capacity {} (expected {})", req, h.cap, c));
                return;
            }
        } else if (h.cap as u64) < req.min_capacity() {
            self.viol(&["C03"], "capacity-too-small", format!("{:?} returned capacity {} (< {})", req, h.cap, req.min_capacity()));
            return;
        }
        let post = self.runners[0].state();
        if matches!(predict, Predict::Null) {
            self.out.inc("zero_size_requests");
            if h.cap != 0 || post.allocated != pre.0.allocated {
                self.viol(&["C03"], "zero-size-request-consumed-space", format!("zero-sized {:?}: capacity {} allocated {} -> {}", req, h.cap, pre.0.allocated, post.allocated));
                return;
            }
            if !self.expect_unchanged(&["C03"], "zero-size-request-changed-state", "a zero-sized request", &pre) {
                return;
            }
            // a null handle: track so that it can be dropped like the others
            self.live.push(Entry { id, kind, off: 0, cap: 0, boff: 0, bcap: 0, has_handle: true, owned, via: if owned { None } else { Some(via) }, expected: vec![], dropper: self.pending_early_drops.0, early_drops: self.pending_early_drops.1, gen: 0, recycled: false, holds_ref: owned && matches!(kind, HKind::Typed(_)) });
            return;
        }
        if matches!(predict, Predict::ReadOnly) {
            self.viol(&["C09"], "readonly-alloc-succeeded", format!("{:?} succeeded on a read-only arena", req));
            return;
        }
        let align = req.align();
        let tsize = match req {
            Req::Bytes(_) => 0,
            Req::Aligned { size, .. } | Req::Typed { size, .. } => size,
        };
        if tsize > 0 && align > 1 {
            if h.off % align != 0 {
                self.viol(&["C03"], "offset-misaligned", format!("{:?}: offset {} is not a multiple of {}", req, h.off, align));
                return;
            }
            if h.addr_rel != u64::MAX {
                if h.addr_rel != h.off as u64 {
                    self.viol(&["C03"], "pointer-not-at-offset", format!("{:?}: as_mut_ptr is base+{} but offset() is {}", req, h.addr_rel, h.off));
                    return;
                }
                let base_align = match self.cfg.backend {
                    Backend::Vec => self.cfg.max_align.max(8) as u32,
                    _ => 4096,
                };
                if align <= base_align && h.addr_mod64 % align.min(64) != 0 {
                    self.viol(&["C03"], "address-misaligned", format!("{:?}: address mod 64 = {} not aligned to {}", req, h.addr_mod64, align));
                    return;
                }
                self.out.inc("c03_address_checks");
            }
        }
        self.out.inc("c03_capacity_alignment_checks");
        // ---- path conformance
        let mut recycled = false;
        match predict {
            Predict::Fast { off, boff, bcap, new_cursor } => {
                let first = pre.0.allocated == self.model.data_offset && self.model.high_water == self.model.data_offset;
                if h.off != off || h.boff != boff || h.bcap != bcap || post.allocated != new_cursor {
                    if first && h.off != off {
                        self.viol(&["C16"], "first-allocation-misplaced", format!("first allocation {:?} at {} (expected first aligned offset {} after data_offset {})", req, h.off, off, self.model.data_offset));
                    } else {
                        self.diverge(format!("fresh-space placement {:?} allocated={} differs from model off={} boff={} bcap={} cursor={}", h, post.allocated, off, boff, bcap, new_cursor));
                    }
                    return;
                }
                if first {
                    self.out.inc("c16_first_allocation_checks");
                }
                self.model.cursor = new_cursor;
                let cls = if h.off < self.model.high_water { self.lowering } else if self.after_reopen { "fresh-after-reopen" } else if self.after_discard { "fresh-after-discard_freelist" } else { "fresh" };
                self.note_zero_check(&req, &h, cls);
                if tsize > 0 && pre.0.allocated % align.max(1) != 0 {
                    self.flags.typed_fresh_odd = true;
                    self.out.inc("c03_fresh_padded");
                }
                if self.model.cursor > self.model.high_water {
                    self.model.high_water = self.model.cursor;
                }
            }
            Predict::Slow { ref may, .. } => {
                recycled = true;
                self.tmp_recycled = true;
                self.flags.slow_any = true;
                if self.model.list.len() >= 2 {
                    self.flags.slow_with_2_nodes = true;
                }
                let Some(&(node, dsize)) = self.model.list.iter().find(|x| x.0 == h.boff) else {
                    let msg = format!("{:?} was served at buffer offset {} which is no free-list node {:?} (fresh space was exhausted: allocated {} cap {})", req, h.boff, self.model.list, self.model.cursor, self.model.cap);
                    self.viol(&["C10"], "slow-path-not-from-list", msg);
                    return;
                };
                if !may.iter().any(|x| x.0 == node) {
                    let msg = format!("{:?} served from segment {}+{} but the {} policy allows only {:?} of {:?}", req, node, dsize, self.model.fl.name(), may, self.model.list);
                    self.viol(&["C10"], "slow-path-wrong-segment", msg);
                    return;
                }
                let seg_end = node as u64 + NODE as u64 + dsize as u64;
                if (h.off as u64) < node as u64 || h.off as u64 + h.cap as u64 > seg_end {
                    let msg = format!("{:?}: accessible [{},+{}) leaves the segment [{}, {})", req, h.off, h.cap, node, seg_end);
                    self.viol(&["C10", "C01"], "slow-path-outside-segment", msg);
                    return;
                }
                if post.allocated != pre.0.allocated {
                    self.diverge(format!("slow path moved the cursor {} -> {}", pre.0.allocated, post.allocated));
                    return;
                }
                let (lo, hi) = req.need();
                self.model.list.retain(|x| x.0 != node);
                if h.bcap < dsize {
                    // split: remainder re-inserted
                    let consumed = h.bcap as u64;
                    if consumed < lo || consumed > hi {
                        self.diverge(format!("split consumed {} bytes for {:?} (outside [{}, {}])", consumed, req, lo, hi));
                        return;
                    }
                    let rs = node as u64 + NODE as u64 + consumed;
                    let rl = dsize as u64 - consumed;
                    match self.model.segment_of(rs as u32, rl as u32) {
                        Some(seg) => {
                            self.model.list.push(seg);
                            self.flags.split = true;
                            self.out.inc("c10_split_remainders");
                        }
                        None => {
                            let msg = format!("remainder [{},+{}) went back to the list although it cannot hold a node plus the minimum segment size {}", rs, rl, self.model.min_seg);
                            self.viol(&["C10"], "remainder-too-small-reinserted", msg);
                            return;
                        }
                    }
                } else {
                    // no split: legal only if some admissible consumption leaves an unusable remainder
                    let mut ok = false;
                    let mut c = lo;
                    while c <= hi.min(dsize as u64) {
                        let rs = node as u64 + NODE as u64 + c;
                        let rl = dsize as u64 - c;
                        if self.model.segment_of(rs as u32, rl as u32).is_none() {
                            ok = true;
                            break;
                        }
                        c += 1;
                    }
                    if !ok {
                        let msg = format!("{:?} took the whole segment {}+{} although the remainder can hold a node plus the minimum segment size {}", req, node, dsize, self.model.min_seg);
                        self.viol(&["C10"], "remainder-dropped", msg);
                        return;
                    }
                    self.out.inc("c10_whole_segment");
                }
                self.out.inc("c10_slow_path_policy_checks");
                self.note_zero_check(&req, &h, if self.after_reopen { "recycled-after-reopen" } else { "recycled" });
                if tsize > 0 {
                    self.flags.typed_recycled = true;
                    self.out.inc("c03_recycled_typed");
                }
                if self.live.iter().filter(|e| e.cap > 0).count() >= 2 {
                    self.flags.recycled_with_2_live = true;
                }
            }
            Predict::Fail => {
                let msg = format!("{:?} succeeded at {:?} although neither fresh space (allocated {} cap {}) nor the {} free list {:?} can serve it", req, h, self.model.cursor, self.model.cap, self.model.fl.name(), self.model.list);
                self.viol(&["C10"], "alloc-succeeded-against-policy", msg);
                return;
            }
            Predict::Null | Predict::ReadOnly => unreachable!(),
        }
        self.tmp_recycled = recycled;
    }

    #[allow(clippy::too_many_arguments)]
    fn alloc_register(&mut self, id: u64, req: Req, ty: u8, owned: bool, via: usize, h: HInfo) {
        let kind = match req {
            Req::Bytes(_) => HKind::Bytes,
            Req::Aligned { .. } => HKind::Aligned(ty),
            Req::Typed { .. } => HKind::Typed(ty),
        };
        let recycled = self.tmp_recycled;
        // ---- C08 zero fill for byte allocations; register in the shadow map
        let end = h.off as usize + h.cap as usize;
        let memlen = self.runners[0].mem().len();
        if end > memlen {
            self.viol(&["C01", "C04"], "beyond-capacity", format!("{:?}: accessible range [{},{}) exceeds capacity {}", req, h.off, end, memlen));
            return;
        }
        let content = self.runners[0].mem()[h.off as usize..end].to_vec();
        if matches!(req, Req::Bytes(_)) || matches!(req, Req::Aligned { size: 0, .. }) {
            if let Some(p) = content.iter().position(|b| *b != 0) {
                let msg = format!("alloc_bytes buffer [{},+{}) byte {} reads {:#04x} right after return", h.off, h.cap, p, content[p]);
                self.viol(&["C08"], "not-zeroed", msg);
                return;
            }
        }
        self.live.push(Entry {
            id,
            kind,
            off: h.off,
            cap: h.cap,
            boff: h.boff,
            bcap: h.bcap,
            has_handle: true,
            owned,
            via: if owned { None } else { Some(via) },
            expected: content,
            dropper: matches!(req, Req::Typed { .. }) && ty == TY_DROPPER,
            early_drops: 0,
            gen: 0,
            recycled,
            holds_ref: owned,
        });
        if owned {
            self.out.inc("owned_handles");
        }
        // aligned / typed allocations promise no particular content: define it now so that
        // "bytes change only when written through that handle" is checkable on every runner
        if !matches!(req, Req::Bytes(_)) {
            let k = self.live.len() - 1;
            if self.live[k].dropper {
                self.live[k].expected.clear();
            } else {
                self.do_fill(k, false);
            }
        }
    }

    fn note_zero_check(&mut self, req: &Req, h: &HInfo, class: &str) {
        if !matches!(req, Req::Bytes(_)) {
            return;
        }
        let (a, b) = (h.off as usize, h.off as usize + h.cap as usize);
        let dirty = b <= self.prev_mem.len() && self.prev_mem[a..b].iter().any(|x| *x != 0);
        self.out.inc(&format!("c08_zero_checks.{}", class));
        if dirty {
            self.out.inc(&format!("c08_zero_checks_on_dirty_space.{}", class));
            if class != "fresh" {
                self.flags.zero_nonvacuous_reuse = true;
            }
        }
    }

    pub fn do_fill(&mut self, k: usize, safe: bool) {
        let e = &mut self.live[k];
        if !e.has_handle || e.cap == 0 || e.dropper {
            return;
        }
        e.gen += 1;
        let data = pattern(e.id, e.gen, e.cap as usize);
        e.expected = data.clone();
        let id = e.id;
        self.log(format!("fill #{} safe={}", id, safe));
        for r in self.runners.iter_mut() {
            r.fill(id, &data, safe);
        }
        self.out.inc("fills");
    }

    /// release through drop of a non-detached handle, or through explicit dealloc of a leaked range
    pub fn do_release(&mut self, k: usize, explicit: bool) {
        let e = self.live.remove(k);
        self.log(format!("{} #{} buf[{},+{})", if explicit { "dealloc" } else { "drop" }, e.id, e.boff, e.bcap));
        let pre = self.state_tuple();
        let pred = self.model.predict_release(e.boff, e.bcap);
        let drops0 = drops_now();
        let mut obs = vec![];
        for r in self.runners.iter_mut() {
            if explicit {
                obs.push(r.dealloc(e.boff, e.bcap));
            } else {
                r.drop_handle(e.id);
                obs.push(Obs::Unit);
            }
        }
        let nr = self.runners.len();
        let dd = drops_now() - drops0;
        if e.dropper && !explicit {
            self.out.inc("c13_value_drop_checks");
            if e.cap == 0 {
                self.out.inc("c13_zero_sized_value_drop_checks");
            }
            if dd + e.early_drops * nr != nr {
                self.viol(&["C13"], "value-drop-count", format!("dropping the handle of a needs_drop value ran its destructor {} times per arena (expected once)", dd as f64 / nr as f64));
                return;
            }
        } else if dd != 0 {
            self.viol(&["C13"], "value-drop-count", format!("{} unexpected destructor runs", dd));
            return;
        }
        if !self.compare_obs("release", &obs) {
            return;
        }
        let post = self.state_tuple();
        let mut exp = self.model.clone();
        exp.apply_release(&pred);
        let mut got_list: Vec<(u32, u32)> = post.1.iter().map(|x| (x.0, x.1)).collect();
        let mut exp_list = exp.list.clone();
        got_list.sort();
        exp_list.sort();
        self.out.inc(&format!("release.{}", match pred { Release::Nothing => "null", Release::Top { .. } => "top", Release::Discard { .. } => "discard", Release::Insert { .. } => "insert" }));
        if post.0.allocated != exp.cursor || got_list != exp_list {
            let msg = format!("release of buffer [{},+{}) expected {:?}: cursor {} -> {} (expected {}), list {:?} (expected {:?})", e.boff, e.bcap, pred, pre.0.allocated, post.0.allocated, exp.cursor, got_list, exp_list);
            self.viol(&["C13", "C10"], "release-effect", msg);
            return;
        }
        match pred {
            Release::Discard { amount } => {
                if post.0.discarded != pre.0.discarded.wrapping_add(amount) {
                    let msg = format!("release of [{},+{}) that cannot become a segment ({}): discarded {} -> {} (expected +{})", e.boff, e.bcap, self.model.fl.name(), pre.0.discarded, post.0.discarded, amount);
                    self.viol(&["C20"], "discard-accounting", msg);
                    return;
                }
                self.forever.push((e.boff, e.bcap));
                self.flags.discard_nontrivial = true;
                self.out.inc("c20_discard_delta_checks");
            }
            Release::Top { .. } => {
                self.lowering = "top-released";
            }
            _ => {}
        }
        if post.0.discarded < pre.0.discarded {
            self.viol(&["C20"], "discarded-decreased", format!("discarded {} -> {}", pre.0.discarded, post.0.discarded));
            return;
        }
        self.out.inc("c13_release_effect_checks");
        self.model = exp;
        self.model.discarded = post.0.discarded;
    }

    pub fn do_detach_drop(&mut self, k: usize) {
        let id = self.live[k].id;
        self.log(format!("detach+drop #{}", id));
        let pre = self.state_tuple();
        let drops0 = drops_now();
        for r in self.runners.iter_mut() {
            r.detach_drop(id);
        }
        if drops_now() != drops0 {
            self.viol(&["C13"], "value-drop-count", "a detached handle ran the destructor of its value".to_string());
            return;
        }
        if !self.expect_unchanged(&["C13"], "detached-handle-released", "dropping a detached handle", &pre) {
            return;
        }
        self.out.inc("c13_detach_checks");
        let e = &mut self.live[k];
        e.has_handle = false;
        if e.cap == 0 || e.dropper {
            // nothing to keep alive (the dropper's value lived in the handle)
            if e.cap == 0 {
                self.live.remove(k);
            }
        }
    }

    pub fn do_set_min_seg(&mut self, v: u32) {
        self.log(format!("set_minimum_segment_size {}", v));
        let pre = self.state_tuple();
        for r in self.runners.iter_mut() {
            r.set_min_seg(v);
        }
        let post = self.state_tuple();
        if post.0.min_seg != v {
            self.viol(&["C16"], "accessor:minimum_segment_size", format!("minimum_segment_size() = {} after set({})", post.0.min_seg, v));
            return;
        }
        if post.0.allocated != pre.0.allocated || post.0.discarded != pre.0.discarded || post.1 != pre.1 {
            self.diverge("set_minimum_segment_size changed other state".to_string());
            return;
        }
        self.model.min_seg = v;
    }

    pub fn do_inc_discarded(&mut self, v: u32) {
        self.log(format!("increase_discarded {}", v));
        let pre = self.state_tuple();
        for r in self.runners.iter_mut() {
            r.inc_discarded(v);
        }
        let post = self.state_tuple();
        self.out.inc("c20_increase_discarded_checks");
        if post.0.discarded != pre.0.discarded.wrapping_add(v) {
            self.viol(&["C20"], "increase_discarded-delta", format!("increase_discarded({}) moved discarded {} -> {}", v, pre.0.discarded, post.0.discarded));
            return;
        }
        self.model.discarded = post.0.discarded;
    }

    pub fn do_discard_freelist(&mut self) {
        self.log("discard_freelist".to_string());
        let pre = self.state_tuple();
        let mut obs = vec![];
        for r in self.runners.iter_mut() {
            obs.push(r.discard_freelist());
        }
        if !self.compare_obs("discard_freelist", &obs) {
            return;
        }
        let post = self.state_tuple();
        let Obs::Discarded(res) = obs[0].clone() else { unreachable!() };
        self.out.inc("c20_discard_freelist_checks");
        match res {
            Err(k) => {
                if !(self.model.ro && k == ErrKind::ReadOnly) {
                    self.viol(&["C20"], "discard_freelist-error", format!("discard_freelist failed with {:?} on a writable arena", k));
                }
            }
            Ok(n) => {
                if self.model.ro {
                    self.viol(&["C20", "C09"], "discard_freelist-on-readonly", "discard_freelist returned Ok on a read-only arena".to_string());
                    return;
                }
                let sum: u64 = pre.1.iter().map(|x| x.1 as u64).sum();
                if n as u64 != sum || post.0.discarded as u64 != pre.0.discarded as u64 + sum || !post.1.is_empty() {
                    let msg = format!("discard_freelist returned {} (list data sizes sum {}), discarded {} -> {}, list afterwards {:?}", n, sum, pre.0.discarded, post.0.discarded, post.1);
                    self.viol(&["C20"], "discard_freelist-accounting", msg);
                    return;
                }
                if !pre.1.is_empty() {
                    self.flags.discard_nontrivial = true;
                    self.out.inc("c20_discard_freelist_nonempty");
                }
                for nd in pre.1.iter() {
                    self.forever.push((nd.0, NODE + nd.1));
                }
                self.model.list.clear();
                self.model.discarded = post.0.discarded;
                self.after_discard = true;
            }
        }
    }

    pub fn do_clone_arena(&mut self) {
        self.log("clone arena".to_string());
        let idx = self.arena_vals.len();
        for r in self.runners.iter_mut() {
            r.clone_arena(idx);
        }
        self.arena_vals.push(true);
        self.flags.owned_and_clone = true;
        self.out.inc("arena_clones");
    }

    pub fn do_drop_arena(&mut self, idx: usize) {
        self.log(format!("drop arena value {}", idx));
        for r in self.runners.iter_mut() {
            r.drop_arena(idx);
        }
        self.arena_vals[idx] = false;
        if idx == 0 {
            self.flags.ooo_arena_drop = true;
            self.out.inc("original_arena_dropped_first");
        }
    }

    pub fn do_rewind(&mut self, pos: RewPos) {
        self.log(format!("rewind {:?}", pos));
        let target = self.model.rewind_target(pos);
        let pre = self.state_tuple();
        let mem_pre: Vec<u8> = self.runners[0].mem().to_vec();
        // the caller's duty: nothing above the target may be used afterwards
        let mut k = 0;
        while k < self.live.len() {
            let e = &self.live[k];
            if e.cap > 0 && (e.off as u64 + e.cap as u64).max(e.boff as u64 + e.bcap as u64 + if e.recycled { 8 } else { 0 }) > target as u64 {
                let id = e.id;
                let had = e.has_handle;
                if had {
                    for r in self.runners.iter_mut() {
                        r.detach_drop(id);
                    }
                }
                self.live.remove(k);
            } else {
                k += 1;
            }
        }
        for r in self.runners.iter_mut() {
            r.rewind(pos);
        }
        let post = self.state_tuple();
        self.out.inc("c17_rewind_checks");
        if post.0.allocated != target {
            let msg = format!("rewind({:?}) with allocated={} data_offset={} capacity={} moved the cursor to {} (reference clamp: {})", pos, pre.0.allocated, self.model.data_offset, self.model.cap, post.0.allocated, target);
            self.viol(&["C17"], &format!("rewind-target:{}", match pos { RewPos::Start(_) => "Start", RewPos::End(_) => "End", RewPos::Current(_) => "Current" }), msg);
            return;
        }
        {
            // the cursor word itself lives in memory() in the unified layout: compare the data area
            let hdr = self.model.data_offset as usize;
            let same_data = self.runners[0].mem()[hdr..] == mem_pre[hdr..];
            if post.0.discarded != pre.0.discarded || post.0.min_seg != pre.0.min_seg || post.0.cap != pre.0.cap || post.1 != pre.1 || !same_data {
                self.viol(&["C17"], "rewind-changed-more", format!("rewind({:?}) changed more than the cursor: {:?} -> {:?}", pos, pre.0, post.0));
                return;
            }
        }
        if target < pre.0.allocated {
            self.lowering = "rewound";
            if self.model.list.iter().any(|x| x.0 as u64 + 8 + x.1 as u64 > target as u64) {
                self.model.rewound = true;
            }
            self.forever.retain(|f| f.0 as u64 + f.1 as u64 <= target as u64);
        }
        if !self.model.list.is_empty() {
            self.flags.rewind_or_clear_with_list = true;
        }
        self.model.cursor = target;
        if target > self.model.high_water {
            self.model.high_water = target;
        }
    }
}

impl<'o> Hist<'o> {
    /// Turn every handle into a leaked (still live) range and drop arena clones.
    fn leak_all(&mut self, keep_ranges: bool) {
        for k in 0..self.live.len() {
            if self.live[k].has_handle {
                let id = self.live[k].id;
                for r in self.runners.iter_mut() {
                    r.detach_drop(id);
                }
                self.live[k].has_handle = false;
            }
        }
        self.live.retain(|e| e.cap > 0 && !e.dropper && keep_ranges);
        // keep exactly one arena value
        let first = self.arena_vals.iter().position(|x| *x).unwrap();
        for i in 0..self.arena_vals.len() {
            if i != first && self.arena_vals[i] {
                for r in self.runners.iter_mut() {
                    r.drop_arena(i);
                }
                self.arena_vals[i] = false;
            }
        }
    }

    fn drop_secondaries(&mut self) {
        while self.runners.len() > 1 {
            let mut r = self.runners.pop().unwrap();
            self.rels.pop();
            let p = r.cfg().path.clone();
            r.teardown();
            drop(r);
            if let Some(p) = p {
                let _ = std::fs::remove_file(p);
            }
        }
    }

    pub fn do_clear(&mut self) {
        self.log("clear".to_string());
        self.leak_all(false);
        let pre = self.state_tuple();
        let mut obs = vec![];
        for r in self.runners.iter_mut() {
            obs.push(r.clear());
        }
        if !self.compare_obs("clear", &obs) {
            return;
        }
        if obs[0] != Obs::Res(Ok(())) {
            if !self.model.ro {
                self.viol(&["C17"], "clear-failed", format!("clear() on a writable arena returned {:?}", obs[0]));
            }
            return;
        }
        let post = self.state_tuple();
        let d = self.model.data_offset;
        let zeroed = self.runners[0].mem()[d as usize..].iter().all(|b| *b == 0);
        self.out.inc("c17_clear_checks");
        if post.0.allocated != d || post.0.discarded != 0 || !post.1.is_empty() || post.0.min_seg != pre.0.min_seg || post.0.cap != pre.0.cap || !zeroed || post.0.data_offset != d {
            let msg = format!("after clear(): allocated={} (data_offset {}), discarded={}, list={:?}, min_seg {} -> {}, data area zeroed={}", post.0.allocated, d, post.0.discarded, post.1, pre.0.min_seg, post.0.min_seg, zeroed);
            self.viol(&["C17"], "clear-not-pristine", msg);
            return;
        }
        if !pre.1.is_empty() {
            self.flags.rewind_or_clear_with_list = true;
        }
        self.model = Model::new(self.model.cap, d, self.model.fl, post.0.min_seg);
        self.forever.clear();
        self.lowering = "cleared";
        self.truncated_since_clear = false;
        // differential: a fresh arena with the same options and the current minimum segment size
        if let Some(i) = self.rels.iter().position(|r| *r == Rel::FreshAfterClear) {
            let mut r = self.runners.remove(i);
            self.rels.remove(i);
            let p = r.cfg().path.clone();
            r.teardown();
            drop(r);
            if let Some(p) = p {
                let _ = std::fs::remove_file(p);
            }
        }
        if self.runners.len() < 3 && self.arena_vals.iter().filter(|x| **x).count() == 1 && self.arena_vals[0] {
            let mut c = self.cfg.clone();
            c.flavour = self.runners[0].flavour();
            c.cap = self.model.cap;
            c.min_seg = post.0.min_seg;
            if c.backend == Backend::File {
                c.path = Some(format!("{}/fresh-{}-{}.arena", tmp_dir(), self.index, self.steps));
                if c.file_offset > 0 {
                    // a fresh file is created with the same mapping offset
                }
            }
            match new_runner(&c) {
                Ok(mut r) => {
                    r.write_reserved(&self.reserved_pat);
                    self.runners.push(r);
                    self.rels.push(Rel::FreshAfterClear);
                    self.out.inc("c17_fresh_twins_started");
                }
                Err(e) => self.out.note(&format!("could not create fresh twin: {}", e)),
            }
        }
    }

    pub fn can_truncate(&self) -> bool {
        self.runners.iter().all(|r| r.flavour() == Flavour::Unsync) && !self.model.ro && !self.rels.contains(&Rel::OtherBackend)
    }

    pub fn do_truncate(&mut self, n: u32) {
        self.log(format!("truncate {}", n));
        self.leak_all(true);
        let pre = self.state_tuple();
        let used = pre.0.allocated as usize;
        let mem_pre: Vec<u8> = self.runners[0].mem()[..used].to_vec();
        let mut obs = vec![];
        for r in self.runners.iter_mut() {
            obs.push(r.truncate(n));
        }
        if !self.compare_obs("truncate", &obs) {
            return;
        }
        if obs[0] != Obs::Res(Ok(())) {
            self.viol(&["C18"], "truncate-failed", format!("truncate({}) on a writable arena returned {:?}", n, obs[0]));
            return;
        }
        let post = self.state_tuple();
        let want = n.max(pre.0.allocated);
        self.out.inc("c18_truncate_checks");
        if post.0.cap != want {
            self.viol(&["C18"], "truncate-capacity", format!("truncate({}) with allocated {}: capacity {} (expected {})", n, pre.0.allocated, post.0.cap, want));
            return;
        }
        let same_mem = self.runners[0].mem().len() == want as usize && masked_eq(&self.runners[0].mem()[..used], &mem_pre[..], &self.cfg);
        if post.0.allocated != pre.0.allocated || post.0.discarded != pre.0.discarded || post.1 != pre.1 || post.0.min_seg != pre.0.min_seg || !same_mem {
            let msg = format!("truncate({}) changed more than the capacity: {:?} {:?} -> {:?} {:?}; bytes below allocated unchanged: {}", n, pre.0, pre.1, post.0, post.1, same_mem);
            self.viol(&["C18"], "truncate-changed-more", msg);
            return;
        }
        if !pre.1.is_empty() || !self.live.is_empty() {
            self.flags.truncate_nontrivial = true;
        }
        self.model.cap = want;
        self.truncated = true;
        self.truncated_since_clear = true;
    }

    /// Close the file-backed primary and open it again.
    pub fn do_reopen(&mut self, mode: OpenMode, cap_choice: u8, flush: bool, create_flag: bool, swap_flavour: bool) {
        self.log(format!("reopen {:?} cap_choice={} flush={} create={} swap={}", mode, cap_choice, flush, create_flag, swap_flavour));
        self.drop_secondaries();
        self.leak_all(true);
        let pre = self.state_tuple();
        let used = pre.0.allocated as usize;
        let mem_pre: Vec<u8> = self.runners[0].mem()[..used].to_vec();
        let magic_pre = self.runners[0].describe().iter().find(|x| x.0 == "magic_version").map(|x| x.1.clone());
        if flush {
            let kind = self.rng.below(8) as u8;
            self.out.inc(&format!("c05_flush_variant.{}", kind));
            let o = self.runners[0].flush(kind);
            if o != Obs::Res(Ok(())) {
                self.viol(&["C05"], "flush-failed", format!("flush variant {} (0 flush, 1 flush_async, 2 flush_range, 3 flush_async_range, 4 flush_header, 5 flush_async_header, 6 flush_header_and_range, 7 flush_async_header_and_range) returned {:?}", kind, o));
                return;
            }
        }
        let mut cfg = self.runners[0].cfg().clone();
        let mut r = self.runners.pop().unwrap();
        self.rels.pop();
        r.teardown();
        drop(r);
        self.closed = true;
        let file_len = std::fs::metadata(cfg.path.as_ref().unwrap()).map(|m| m.len()).unwrap_or(0);
        let cap = match cap_choice {
            0 => Some(self.model.cap),
            1 => Some(self.model.cap + 8 * self.rng.range(1, 64) as u32),
            _ => None,
        };
        if swap_flavour {
            cfg.flavour = if cfg.flavour == Flavour::Sync { Flavour::Unsync } else { Flavour::Sync };
        }
        // the options carry a different minimum segment size: the stored one must win
        let mut ocfg = cfg.clone();
        ocfg.min_seg = pre.0.min_seg.wrapping_add(13);
        let newr = match reopen_runner(&ocfg, mode, cap, create_flag) {
            Ok(r) => r,
            Err(e) => {
                self.viol(&["C05"], "reopen-failed", format!("reopening with {:?} cap={:?} failed: {}", mode, cap, e));
                return;
            }
        };
        let expect_cap: u64 = match (mode, cap) {
            (OpenMode::MapMut, Some(c)) | (OpenMode::MapCopy, Some(c)) => c as u64,
            (_, Some(c)) => (c as u64).min(file_len - cfg.file_offset),
            (_, None) => file_len.max(0) - cfg.file_offset,
        };
        self.runners.push(newr);
        self.rels.push(Rel::Primary);
        self.closed = false;
        self.cfg.flavour = cfg.flavour;
        let mut rc = self.runners[0].cfg().clone();
        rc.min_seg = pre.0.min_seg;
        let _ = rc;
        let post = self.state_tuple();
        self.out.inc(&format!("c05_reopen_checks.{:?}", mode));
        let magic_post = self.runners[0].describe().iter().find(|x| x.0 == "magic_version").map(|x| x.1.clone());
        let mem_ok = self.runners[0].mem().len() >= used && masked_eq(&self.runners[0].mem()[..used], &mem_pre[..], &self.cfg);
        if post.0.allocated != pre.0.allocated || post.0.discarded != pre.0.discarded || post.0.data_offset != pre.0.data_offset || post.0.min_seg != pre.0.min_seg || magic_pre != magic_post || post.1 != pre.1 || !mem_ok {
            let msg = format!("state after reopen differs: before {:?} list {:?} magic {:?}; after {:?} list {:?} magic {:?}; bytes below allocated equal: {}", pre.0, pre.1, magic_pre, post.0, post.1, magic_post, mem_ok);
            self.viol(&["C05"], &format!("reopen-state:{:?}", mode), msg);
            return;
        }
        if post.0.cap as u64 != expect_cap {
            self.diverge(format!("capacity after reopen {} (expected {})", post.0.cap, expect_cap));
            return;
        }
        if !pre.1.is_empty() && !self.live.is_empty() {
            self.flags.reopen_nontrivial = true;
        }
        let ro = self.runners[0].read_only();
        if ro != matches!(mode, OpenMode::Map | OpenMode::MapCopyRo) {
            self.viol(&["C16"], "accessor:read_only", format!("read_only()={} after {:?}", ro, mode));
            return;
        }
        // C16: the descriptive accessors report the mode and options of *this* open
        {
            let d = self.runners[0].describe();
            let rc = self.runners[0].cfg().clone();
            for (k, v) in expected_describe(&rc, ro) {
                let got = d.iter().find(|x| x.0 == k).map(|x| x.1.clone()).unwrap_or_default();
                if got != v {
                    self.viol(&["C16"], &format!("accessor:{}", k), format!("after {:?}: {}() = {} but the arena was opened with {} ({:?})", mode, k, got, v, rc.backend));
                    break;
                }
            }
            self.out.inc("c16_accessor_tables_checked_after_reopen");
            if self.failed {
                return;
            }
        }
        let old_cap = self.model.cap;
        self.model.cap = post.0.cap;
        self.model.ro = ro;
        self.after_reopen = true;
        self.arena_vals = vec![true];
        self.prev_mem.clear();
        self.prev_mem.extend_from_slice(self.runners[0].mem());
        self.check_invariants();
        if self.failed {
            return;
        }
        match mode {
            OpenMode::MapMut => {}
            OpenMode::Map | OpenMode::MapCopyRo => {
                // read-only session: every mutating call is refused, nothing changes
                for _ in 0..self.rng.range(1, 4) {
                    let n = self.rng.range(0, 40) as u32;
                    match self.rng.below(4) {
                        0 => {
                            let ow = self.rng.bool();
                            self.do_alloc(Req::Bytes(n.max(1)), 0, ow, 0)
                        }
                        1 => {
                            let ty = self.rng.below(13) as u8;
                            let ti = ty_info(ty);
                            self.do_alloc(Req::Typed { size: ti.size, align: ti.align }, ty, false, 0)
                        }
                        2 => self.do_discard_freelist(),
                        _ => {
                            let pre2 = self.state_tuple();
                            let o = self.runners[0].clear();
                            if o == Obs::Res(Ok(())) {
                                self.viol(&["C09"], "readonly-clear-succeeded", "clear() returned Ok on a read-only arena".to_string());
                            } else {
                                self.expect_unchanged(&["C09"], "readonly-call-changed-state", "a refused clear()", &pre2);
                            }
                        }
                    }
                    if self.failed {
                        return;
                    }
                    self.check_invariants();
                    if self.failed {
                        return;
                    }
                }
                self.out.inc("c09_readonly_sessions");
                if self.stay_read_only {
                    // the history ends in this read-only session (teardown is observed on it)
                    return;
                }
                self.model.ro = false;
                self.model.cap = old_cap.max(self.model.cap.min(old_cap));
                self.reopen_writable_and_compare(&pre, &mem_pre, old_cap, "after-read-only-session");
            }
            OpenMode::MapCopy => {
                // private copy-on-write session: do work, throw it away, the file must be as before
                let saved_model = self.model.clone();
                let saved_live = self.live.clone();
                let saved_forever = self.forever.clone();
                let saved_id = self.next_id;
                for _ in 0..self.rng.range(2, 10) {
                    let n = self.rng.range(1, 64) as u32;
                    self.do_alloc(Req::Bytes(n), 0, false, 0);
                    if self.failed {
                        return;
                    }
                    if let Some(k) = self.live.iter().position(|e| e.has_handle && e.cap > 0) {
                        let sf = self.rng.bool();
                        self.do_fill(k, sf);
                    }
                    self.check_invariants();
                    if self.failed {
                        return;
                    }
                    if self.rng.chance(1, 3) {
                        if let Some(k) = self.live.iter().position(|e| e.has_handle) {
                            self.do_release(k, false);
                        }
                    }
                    if self.failed {
                        return;
                    }
                }
                self.leak_all(true);
                self.model = saved_model;
                self.live = saved_live;
                self.forever = saved_forever;
                self.next_id = saved_id;
                self.out.inc("c05_private_copy_sessions");
                let c = self.model.cap;
                self.model.cap = old_cap;
                let _ = c;
                self.reopen_writable_and_compare(&pre, &mem_pre, old_cap.max(if cap_choice == 1 { 0 } else { 0 }), "after-private-copy-session");
            }
        }
    }

    fn reopen_writable_and_compare(&mut self, pre: &(St, Vec<(u32, u32, u32)>), mem_pre: &[u8], _old_cap: u32, what: &str) {
        let cfg = self.runners[0].cfg().clone();
        let mut r = self.runners.pop().unwrap();
        self.rels.pop();
        r.teardown();
        drop(r);
        self.closed = true;
        let mut ocfg = cfg.clone();
        ocfg.min_seg = pre.0.min_seg.wrapping_add(7);
        let newr = match reopen_runner(&ocfg, OpenMode::MapMut, None, false) {
            Ok(r) => r,
            Err(e) => {
                self.viol(&["C05"], "reopen-failed", format!("writable reopen {} failed: {}", what, e));
                return;
            }
        };
        self.runners.push(newr);
        self.rels.push(Rel::Primary);
        self.closed = false;
        let post = self.state_tuple();
        let used = pre.0.allocated as usize;
        let mem_ok = self.runners[0].mem().len() >= used && self.runners[0].mem()[..used] == mem_pre[..];
        if post.0.allocated != pre.0.allocated || post.0.discarded != pre.0.discarded || post.0.min_seg != pre.0.min_seg || post.1 != pre.1 || !mem_ok {
            let msg = format!("file changed by a session that must not alter it ({}): before {:?} {:?} after {:?} {:?} bytes equal: {}", what, pre.0, pre.1, post.0, post.1, mem_ok);
            self.viol(&["C05", "C09"], &format!("file-altered:{}", what), msg);
            return;
        }
        self.model.cap = post.0.cap;
        self.model.ro = false;
        self.arena_vals = vec![true];
        self.prev_mem.clear();
        self.prev_mem.extend_from_slice(self.runners[0].mem());
    }

    /// Drop everything in a random legal order, watching refs(), the backing store and the file.
    pub fn finish(&mut self) {
        if self.failed || self.closed {
            return;
        }
        self.log("teardown".to_string());
        self.drop_secondaries();
        let backend = self.runners[0].cfg().backend;
        let base = self.runners[0].base();
        let path = self.runners[0].cfg().path.clone();
        let slot = if backend == Backend::Vec { crate::watch::watch(base) } else { None };
        let rm = backend == Backend::File && self.rng.chance(1, 3);
        if rm {
            self.runners[0].remove_on_drop(true);
        }
        loop {
            // candidates: any handle; any arena value not borrowed by a live handle
            let mut cands: Vec<(bool, usize)> = vec![];
            for (k, e) in self.live.iter().enumerate() {
                if e.has_handle {
                    cands.push((true, k));
                }
            }
            for (i, alive) in self.arena_vals.iter().enumerate() {
                if *alive && !self.live.iter().any(|e| e.has_handle && e.via == Some(i)) {
                    cands.push((false, i));
                }
            }
            if cands.is_empty() {
                break;
            }
            let holders = self.arena_vals.iter().filter(|x| **x).count() + self.live.iter().filter(|e| e.has_handle && e.holds_ref).count();
            let (is_h, k) = cands[self.rng.usize(cands.len())];
            let last = holders == 1 && (if is_h { self.live[k].holds_ref } else { true });
            if is_h {
                if self.arena_vals.iter().any(|x| *x) {
                    if self.rng.chance(1, 4) {
                        self.do_detach_drop(k);
                        if k < self.live.len() && !self.live[k].has_handle {
                            // leaked range: forget it, teardown only cares about handles
                        }
                    } else {
                        self.do_release(k, false);
                    }
                } else {
                    // no arena value left to observe through: plain drop of the owned handle; the model
                    // applies the release so that a file-backed arena can be compared after a reopen
                    let e = self.live.remove(k);
                    let pred = self.model.predict_release(e.boff, e.bcap);
                    self.model.apply_release(&pred);
                    self.unobserved_releases += 1;
                    let d0 = drops_now();
                    self.runners[0].drop_handle(e.id);
                    if e.dropper && drops_now() - d0 + e.early_drops != 1 {
                        self.viol(&["C13"], "value-drop-count", "needs_drop value not dropped exactly once".to_string());
                    }
                }
            } else {
                self.do_drop_arena(k);
            }
            if self.failed {
                break;
            }
            // backing store liveness
            let holders_now = self.arena_vals.iter().filter(|x| **x).count() + self.live.iter().filter(|e| e.has_handle && e.holds_ref).count();
            let gone = holders_now == 0;
            let _ = last;
            self.out.inc("c13_backing_checks");
            match backend {
                Backend::Vec => {
                    if let Some(s) = slot {
                        let f = crate::watch::freed(s);
                        if (!gone && f != 0) || (gone && f != 1) {
                            self.viol(&["C13"], "backing-free-count", format!("Vec backing block freed {} times while {} handles/arena values remain", f, holders_now));
                            break;
                        }
                    }
                }
                Backend::Anon | Backend::File => {
                    let m = crate::watch::mapped(base);
                    let is_mapped = match (&m, backend) {
                        (None, _) => false,
                        (Some(p), Backend::File) => path.as_ref().map_or(false, |pp| p.contains(pp.rsplit('/').next().unwrap_or("")) || p.contains("(deleted)") && p.contains(pp.rsplit('/').next().unwrap_or(""))),
                        (Some(_), _) => true,
                    };
                    if !gone && !is_mapped {
                        self.viol(&["C13"], "backing-unmapped-early", format!("mapping at {:#x} is gone while {} handles/arena values remain", base, holders_now));
                        break;
                    }
                    if gone && is_mapped && backend == Backend::File {
                        self.viol(&["C13"], "backing-still-mapped", format!("file mapping at {:#x} still present after the last handle was dropped", base));
                        break;
                    }
                    if backend == Backend::File {
                        let exists = std::path::Path::new(path.as_ref().unwrap()).exists();
                        if !gone && !exists {
                            self.viol(&["C13"], "file-removed-early", "file disappeared before the last handle was dropped".to_string());
                            break;
                        }
                        if gone && exists == rm {
                            self.viol(&["C13"], "remove-on-drop", format!("remove_on_drop={} but file exists={} after the last drop", rm, exists));
                            break;
                        }
                    }
                }
            }
            if !gone && self.arena_vals.iter().any(|x| *x) {
                self.check_invariants();
            }
            if self.failed {
                break;
            }
        }
        if let Some(s) = slot {
            crate::watch::unwatch(s);
        }
        self.closed = true;
        // C13: releases performed by owned handles after the last arena value was gone must have
        // happened too — observable for a file-backed arena by opening the file again
        if !self.failed && backend == Backend::File && !rm && self.unobserved_releases > 0 {
            let cfg = self.runners[0].cfg().clone();
            if let Ok(mut r) = reopen_runner(&cfg, OpenMode::MapMut, None, false) {
                let st = r.state();
                let mut got: Vec<(u32, u32)> = r.snap().nodes.iter().map(|x| (x.0, x.1)).collect();
                let mut exp = self.model.list.clone();
                got.sort();
                exp.sort();
                self.out.inc("c13_reopen_after_teardown_checks");
                if st.allocated != self.model.cursor || got != exp {
                    let msg = format!("{} owned handles were dropped after the last arena value; after reopening the file allocated()={} (expected {}), free list {:?} (expected {:?})", self.unobserved_releases, st.allocated, self.model.cursor, got, exp);
                    self.viol(&["C13"], "release-after-last-arena-value-lost", msg);
                }
                r.teardown();
            }
        }
    }
}
