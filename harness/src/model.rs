//! Sequential reference model of the arena, written from the README and the property
//! statements (C01, C03, C10, C17, C18, C20) — not from sync.rs.
//!
//! It predicts only what the properties state.  Where they leave a quantity open (how much
//! padding a typed request consumes from a segment, what is added to `discarded` when a
//! segment node is created, the numbers inside `InsufficientSpace`) the model accepts a set
//! of outcomes and then adopts the observed one.

use crate::arena::FL;

pub const NODE: u32 = 8;

#[derive(Clone, Copy, Debug, PartialEq, Eq)]
pub enum Req {
    Bytes(u32),
    /// alloc_aligned_bytes::<T>(extra)
    Aligned { size: u32, align: u32, extra: u32 },
    /// alloc::<T>()
    Typed { size: u32, align: u32 },
}

impl Req {
    /// (minimum bytes that must be available, bytes that certainly suffice) inside a segment
    pub fn need(&self) -> (u64, u64) {
        match *self {
            Req::Bytes(n) => (n as u64, n as u64),
            Req::Aligned { size, align, extra } => {
                if size == 0 {
                    (extra as u64, extra as u64)
                } else {
                    (size as u64 + extra as u64, size as u64 + align as u64 - 1 + extra as u64)
                }
            }
            Req::Typed { size, align } => (size as u64, size as u64 + align as u64 - 1),
        }
    }
    pub fn is_zero(&self) -> bool {
        match *self {
            Req::Bytes(n) => n == 0,
            Req::Aligned { size, extra, .. } => size == 0 && extra == 0,
            Req::Typed { size, .. } => size == 0,
        }
    }
    pub fn align(&self) -> u32 {
        match *self {
            Req::Bytes(_) => 1,
            Req::Aligned { size, align, .. } => {
                if size == 0 {
                    1
                } else {
                    align
                }
            }
            Req::Typed { align, .. } => align,
        }
    }
    /// minimal accessible capacity the property promises
    pub fn min_capacity(&self) -> u64 {
        match *self {
            Req::Bytes(n) => n as u64,
            Req::Aligned { size, extra, .. } => size as u64 + extra as u64,
            Req::Typed { size, .. } => size as u64,
        }
    }
    pub fn exact_capacity(&self) -> Option<u64> {
        match *self {
            Req::Bytes(n) => Some(n as u64),
            Req::Aligned { size, extra, .. } if size == 0 => Some(extra as u64),
            Req::Aligned { .. } => None,
            Req::Typed { size, .. } => Some(size as u64),
        }
    }
}

#[derive(Clone, Debug, PartialEq, Eq)]
pub enum Predict {
    ReadOnly,
    /// zero-sized request: succeeds, occupies nothing, state unchanged
    Null,
    /// served from fresh space
    Fast { off: u32, boff: u32, bcap: u32, new_cursor: u32 },
    /// must be served from the free list; `must` = node offsets one of which must be used when
    /// success is mandatory, `may_fail` = failure is acceptable, `may` = acceptable nodes
    Slow { may: Vec<(u32, u32)>, must_succeed: bool },
    /// must fail with InsufficientSpace
    Fail,
}

#[derive(Clone, Debug, PartialEq, Eq)]
pub enum Release {
    Nothing,
    Top { new_cursor: u32 },
    Discard { amount: u32 },
    Insert { node: u32, dsize: u32 },
}

#[derive(Clone, Debug)]
pub struct Model {
    pub cap: u32,
    pub data_offset: u32,
    pub fl: FL,
    pub ro: bool,
    pub cursor: u32,
    pub discarded: u32,
    pub min_seg: u32,
    /// (node offset, data size); order irrelevant (ties may appear in any order)
    pub list: Vec<(u32, u32)>,
    /// the history rewound the cursor: nodes above the cursor are permitted
    pub rewound: bool,
    /// highest cursor ever reached (for provenance classes)
    pub high_water: u32,
}

pub fn align_up(x: u64, a: u64) -> u64 {
    (x + a - 1) & !(a - 1)
}

impl Model {
    pub fn new(cap: u32, data_offset: u32, fl: FL, min_seg: u32) -> Model {
        Model {
            cap,
            data_offset,
            fl,
            ro: false,
            cursor: data_offset,
            discarded: 0,
            min_seg,
            list: vec![],
            rewound: false,
            high_water: data_offset,
        }
    }

    /// Can `[start, start+len)` become a segment?  Returns (node offset, data size).
    pub fn segment_of(&self, start: u32, len: u32) -> Option<(u32, u32)> {
        if start == 0 || len == 0 {
            return None;
        }
        let a = align_up(start as u64, 8);
        let node = (a - start as u64) + NODE as u64;
        if node >= len as u64 {
            return None;
        }
        let avail = len as u64 - node;
        if avail < self.min_seg as u64 {
            return None;
        }
        Some((a as u32, avail as u32))
    }

    pub fn predict_alloc(&self, req: Req) -> Predict {
        if self.ro {
            return Predict::ReadOnly;
        }
        if req.is_zero() {
            return Predict::Null;
        }
        // fresh space first
        let cur = self.cursor as u64;
        match req {
            Req::Bytes(n) | Req::Aligned { size: 0, extra: n, .. } => {
                if cur + n as u64 <= self.cap as u64 {
                    return Predict::Fast {
                        off: self.cursor,
                        boff: self.cursor,
                        bcap: n,
                        new_cursor: self.cursor + n,
                    };
                }
            }
            Req::Aligned { size, align, extra } => {
                let a = align_up(cur, align as u64);
                let end = a + size as u64 + extra as u64;
                if end <= self.cap as u64 {
                    return Predict::Fast {
                        off: a as u32,
                        boff: self.cursor,
                        bcap: (end - cur) as u32,
                        new_cursor: end as u32,
                    };
                }
            }
            Req::Typed { size, align } => {
                let a = align_up(cur, align as u64);
                let end = a + size as u64;
                if end <= self.cap as u64 {
                    return Predict::Fast {
                        off: a as u32,
                        boff: self.cursor,
                        bcap: (end - cur) as u32,
                        new_cursor: end as u32,
                    };
                }
            }
        }
        let (lo, hi) = req.need();
        match self.fl {
            FL::None => Predict::Fail,
            FL::Optimistic => {
                // largest segment; ties: any of the largest
                let Some(maxd) = self.list.iter().map(|x| x.1).max() else {
                    return Predict::Fail;
                };
                if (maxd as u64) < lo {
                    return Predict::Fail;
                }
                let may: Vec<_> = self.list.iter().copied().filter(|x| x.1 == maxd).collect();
                Predict::Slow {
                    may,
                    must_succeed: maxd as u64 >= hi,
                }
            }
            FL::Pessimistic => {
                // smallest segment that fits; "fits" is exact for byte requests; for typed requests
                // anything between `lo` and `hi` may be what the implementation demands
                let fit_hi = self.list.iter().copied().filter(|x| x.1 as u64 >= hi).map(|x| x.1).min();
                let fit_lo = self.list.iter().copied().filter(|x| x.1 as u64 >= lo).map(|x| x.1).min();
                let Some(lo_d) = fit_lo else {
                    return Predict::Fail;
                };
                let upper = fit_hi.unwrap_or(u32::MAX);
                // acceptable: any node whose size is in [lo_d, upper] and >= lo
                let may: Vec<_> = self
                    .list
                    .iter()
                    .copied()
                    .filter(|x| x.1 >= lo_d && x.1 <= upper)
                    .collect();
                Predict::Slow {
                    may,
                    must_succeed: fit_hi.is_some(),
                }
            }
        }
    }

    pub fn predict_release(&self, boff: u32, bcap: u32) -> Release {
        if bcap == 0 {
            return Release::Nothing;
        }
        if boff as u64 + bcap as u64 == self.cursor as u64 {
            return Release::Top { new_cursor: boff };
        }
        match self.fl {
            FL::None => Release::Discard { amount: bcap },
            _ => match self.segment_of(boff, bcap) {
                Some((node, dsize)) => Release::Insert { node, dsize },
                None => Release::Discard { amount: bcap },
            },
        }
    }

    pub fn apply_release(&mut self, r: &Release) {
        match *r {
            Release::Nothing => {}
            Release::Top { new_cursor } => self.cursor = new_cursor,
            Release::Discard { amount } => self.discarded = self.discarded.wrapping_add(amount),
            Release::Insert { node, dsize } => self.list.push((node, dsize)),
        }
    }

    /// reference clamp for rewind, computed in i128
    pub fn rewind_target(&self, pos: RewPos) -> u32 {
        let t: i128 = match pos {
            RewPos::Start(n) => n as i128,
            RewPos::End(n) => self.cap as i128 - n as i128,
            RewPos::Current(d) => self.cursor as i128 + d as i128,
        };
        t.clamp(self.data_offset as i128, self.cap as i128) as u32
    }

    pub fn ordered_ok(&self, nodes: &[(u32, u32, u32)]) -> bool {
        match self.fl {
            FL::None => nodes.is_empty(),
            FL::Optimistic => nodes.windows(2).all(|w| w[0].1 >= w[1].1),
            FL::Pessimistic => nodes.windows(2).all(|w| w[0].1 <= w[1].1),
        }
    }
}

#[derive(Clone, Copy, Debug, PartialEq, Eq)]
pub enum RewPos {
    Start(u32),
    End(u32),
    Current(i64),
}
