//! C14: buffer writers / readers stay in bounds and round-trip.
//! Matrix: {u8..u128,i8..i128,usize,isize} x {be,le,ne} x {put, put_unchecked, write, get, varint}
//! x fill level x capacity x buffer kind (fresh / recycled / aligned-with-padding / flush at the
//! arena end) x handle kind (BytesRefMut / BytesMut) x arena flavour.  Whole-arena snapshots
//! before/after every call show any byte touched outside the buffer.

use crate::arena::*;
use crate::out::Out;
use crate::util::json::J;
use crate::util::rng::{mix, Rng};
use crate::Args;
#[allow(unused_imports)]
use rarena_allocator::{sync, unsync, Allocator, ArenaPosition, Buffer, BytesMut, BytesRefMut, Freelist, Options};

#[derive(Clone, Copy, Debug, PartialEq, Eq)]
pub enum BKind {
    Fresh,
    Recycled,
    AlignedPad,
    EndFlush,
}

pub struct Ctx<'o> {
    out: &'o mut Out,
    flavour: &'static str,
    hk: &'static str,
    kind: BKind,
    cap: usize,
    seed: u64,
}

impl<'o> Ctx<'o> {
    fn viol(&mut self, op: &str, what: &str, msg: String, len: usize) {
        let sig = format!("{}:{}", op, what);
        self.out.viol(
            "C14",
            &sig,
            crate::jobj!("op" => op, "failure" => what, "message" => msg, "flavour" => self.flavour, "handle" => self.hk,
                "buffer_kind" => format!("{:?}", self.kind), "capacity" => self.cap, "len_before" => len,
                "replay_args" => format!("bufs --seed {} --kind {:?} --cap {} --cap-to {} --flavour {}", self.seed, self.kind, self.cap, self.cap, self.flavour)),
        );
    }
}

fn bg(i: usize, salt: u64) -> u8 {
    let b = (mix(salt, i as u64) >> 13) as u8;
    if b == 0 {
        0x5A
    } else {
        b
    }
}

pub mod m_ref {
    use super::*;
    pub type H<A> = BytesRefMut<'static, A>;
    include!("bufs_matrix.rs");
}
pub mod m_own {
    use super::*;
    pub type H<A> = BytesMut<A>;
    include!("bufs_matrix.rs");
}


fn build_and_run<A: VArena>(ctx: &mut Ctx, rng: &mut Rng, thin: bool) {
    for owned in [false, true] {
        ctx.hk = if owned { "BytesMut" } else { "BytesRefMut" };
        build_one::<A>(ctx, rng, thin, owned);
    }
}

fn build_one<A: VArena>(ctx: &mut Ctx, rng: &mut Rng, thin: bool, owned: bool) {
    let cap = ctx.cap;
    let kind = ctx.kind;
    let reserved = 3u32;
    let opts = Options::new().with_reserved(reserved).with_minimum_segment_size(1).with_freelist(Freelist::Optimistic).with_unify(false);
    let prefix = reserved + 1;
    // layout: guardA | target | guardB
    let ga = match kind {
        BKind::AlignedPad => 15u32, // leaves the cursor at 3 mod 8 (prefix 4 + 15 = 19)
        _ => 12,                    // 4 + 12 = 16: 8-aligned
    };
    let total = match kind {
        BKind::EndFlush => prefix + ga + cap as u32,
        _ => prefix + ga + cap as u32 + 8 + 64,
    };
    let arena_box: Box<A> = Box::new(opts.with_capacity(total).alloc::<A>().expect("arena"));
    let arena: &'static A = unsafe { &*(&*arena_box as *const A) };
    let mut a = arena.alloc_bytes(ga).unwrap();
    unsafe {
        Buffer::detach(&mut a);
        std::ptr::write_bytes(a.as_mut_ptr(), 0xEE, ga as usize);
    }
    drop(a);
    match kind {
        BKind::Fresh | BKind::EndFlush => {
            if owned {
                let mut t = arena.alloc_bytes_owned(cap as u32).unwrap();
                let g = guard(arena, kind);
                m_own::matrix(ctx, arena, &mut t, rng, thin);
                drop(g);
                drop(t);
            } else {
                let mut t = arena.alloc_bytes(cap as u32).unwrap();
                let g = guard(arena, kind);
                m_ref::matrix(ctx, arena, &mut t, rng, thin);
                drop(g);
                drop(t);
            }
        }
        BKind::AlignedPad => {
            if cap >= 8 {
                if owned {
                    let mut t = arena.alloc_aligned_bytes_owned::<A8<8>>(cap as u32 - 8).unwrap();
                    assert!(Buffer::offset(&t) != Buffer::buffer_offset(&t) && Buffer::capacity(&t) == cap);
                    let g = guard(arena, kind);
                    m_own::matrix(ctx, arena, &mut t, rng, thin);
                    drop(g);
                    drop(t);
                } else {
                    let mut t = arena.alloc_aligned_bytes::<A8<8>>(cap as u32 - 8).unwrap();
                    assert!(Buffer::offset(&t) != Buffer::buffer_offset(&t) && Buffer::capacity(&t) == cap);
                    let g = guard(arena, kind);
                    m_ref::matrix(ctx, arena, &mut t, rng, thin);
                    drop(g);
                    drop(t);
                }
            }
        }
        BKind::Recycled => {
            if cap > 0 {
                let x = arena.alloc_bytes(cap as u32 + 8).unwrap();
                let mut g = guard(arena, kind).unwrap();
                unsafe { Buffer::detach(&mut g) };
                unsafe { arena.rewind(ArenaPosition::End(0)) };
                drop(x); // becomes a segment whose data size == cap
                if owned {
                    let mut t = arena.alloc_bytes_owned(cap as u32).unwrap();
                    assert!(Buffer::offset(&t) == Buffer::buffer_offset(&t) + 8, "target must come from the free list");
                    m_own::matrix(ctx, arena, &mut t, rng, thin);
                    drop(t);
                } else {
                    let mut t = arena.alloc_bytes(cap as u32).unwrap();
                    assert!(Buffer::offset(&t) == Buffer::buffer_offset(&t) + 8, "target must come from the free list");
                    m_ref::matrix(ctx, arena, &mut t, rng, thin);
                    drop(t);
                }
                drop(g);
            }
        }
    }
    drop(arena_box);
}

fn guard<A: VArena>(arena: &'static A, kind: BKind) -> Option<BytesRefMut<'static, A>> {
    if kind == BKind::EndFlush {
        return None;
    }
    let mut g = arena.alloc_bytes(40).unwrap();
    unsafe { std::ptr::write_bytes(g.as_mut_ptr(), 0xDD, 40) };
    Some(g)
}

pub fn child_main(args: &Args) -> i32 {
    let seed = args.u64("seed", 1);
    let mut out = Out::new();
    out.viol_cap = 400;
    crate::seq::install_panic_capture();
    let kinds: Vec<BKind> = match args.str("kind", "all").as_str() {
        "Fresh" => vec![BKind::Fresh],
        "Recycled" => vec![BKind::Recycled],
        "AlignedPad" => vec![BKind::AlignedPad],
        "EndFlush" => vec![BKind::EndFlush],
        _ => vec![BKind::Fresh, BKind::Recycled, BKind::AlignedPad],
    };
    let cap_from = args.u64("cap", 0) as usize;
    let cap_to = args.u64("cap-to", 40) as usize;
    let thin = args.has("thin");
    let fl = args.str("flavour", "both");
    let mut rng = Rng::new(seed);
    let mut extra_caps: Vec<usize> = vec![];
    if args.has("random-caps") {
        for _ in 0..args.u64("random-caps", 4) {
            extra_caps.push(rng.range(41, 300) as usize);
        }
    }
    let caps: Vec<usize> = (cap_from..=cap_to).chain(extra_caps.into_iter()).collect();
    for kind in kinds {
        for &cap in caps.iter() {
            for flavour in ["sync", "unsync"] {
                if fl != "both" && fl != flavour {
                    continue;
                }
                let at = format!("bufs --seed {} --kind {:?} --cap {} --cap-to {} --flavour {}{}", seed, kind, cap, cap, flavour, if thin { " --thin" } else { "" });
                out.at(&at);
                let mut ctx = Ctx { out: &mut out, flavour, hk: "", kind, cap, seed };
                let r = std::panic::catch_unwind(std::panic::AssertUnwindSafe(|| {
                    if flavour == "sync" {
                        build_and_run::<sync::Arena>(&mut ctx, &mut rng, thin || cap > 40)
                    } else {
                        build_and_run::<unsync::Arena>(&mut ctx, &mut rng, thin || cap > 40)
                    }
                }));
                if r.is_err() {
                    let (loc, msg) = crate::seq::LAST_PANIC.with(|p| p.borrow().clone());
                    if loc.contains("rarena-allocator") || loc.contains("/core/") || loc.contains("library/") {
                        out.viol("C14", &format!("panic:{:?}", kind), crate::jobj!("location" => loc, "message" => msg, "replay_args" => at.clone()));
                    } else {
                        out.inconclusive(&format!("harness panic at {}: {} ({})", loc, msg, at));
                        out.inc("harness_panics");
                    }
                }
                out.inc("c14_buffers");
                out.hash(mix(mix(cap as u64, kind as u64), if flavour == "sync" { 1 } else { 2 }));
                if cap == 17 {
                    out.sample(J::Str(at));
                }
            }
        }
    }
    out.emit();
    0
}
