//! Parent side: run child jobs in parallel under a watchdog, merge their line
//! protocol output, decide the three-valued verdict, write evidence + replay files.

use crate::util::json::{self, J};
use std::collections::{BTreeMap, HashSet};
use std::io::Read;
use std::process::{Command, Stdio};
use std::time::{Duration, Instant};

pub const VERIF_DIR: &str = "/verif";

#[derive(Clone, Debug)]
pub struct Job {
    pub label: String,
    pub program: String,
    pub args: Vec<String>,
    pub env: Vec<(String, String)>,
    pub cwd: Option<String>,
    pub timeout_s: u64,
    /// how a death of the child (signal / non-zero exit without DONE) is to be read
    pub death: Death,
    /// exit codes that mean "sanitizer report" (TSan 66, ASan 1 with report text ...)
    pub report_codes: Vec<i32>,
    /// appended to death / sanitizer signatures (e.g. the program family) so that known findings stay specific
    pub sig_suffix: String,
}

#[derive(Clone, Debug, PartialEq)]
pub enum Death {
    /// The child only runs harness + arena code on valid inputs: a death is a violation
    /// of the property under check (memory safety of the arena), attributed to the AT marker.
    Violation,
    /// A death cannot be attributed to the arena (tool failure): inconclusive.
    Inconclusive,
}

impl Job {
    pub fn new(label: &str, program: &str, args: Vec<String>) -> Job {
        Job {
            label: label.to_string(),
            program: program.to_string(),
            args,
            env: vec![],
            cwd: None,
            timeout_s: 600,
            death: Death::Violation,
            report_codes: vec![],
            sig_suffix: String::new(),
        }
    }
}

#[derive(Clone, Debug)]
pub struct Viol {
    pub prop: String,
    pub sig: String,
    pub detail: J,
    pub job: String,
    pub argv: Vec<String>,
}

#[derive(Default)]
pub struct Merged {
    pub cnt: BTreeMap<String, u64>,
    pub max: BTreeMap<String, u64>,
    pub hashes: HashSet<u64>,
    pub samples: Vec<J>,
    pub viols: Vec<Viol>,
    pub inconc: Vec<String>,
    pub notes: Vec<String>,
    pub jobs_run: usize,
    pub jobs_done: usize,
    pub jobs_timed_out: usize,
    pub jobs_died: usize,
    pub raw: Vec<(String, i32, String, String)>, // label, code, stdout-tail, stderr-tail (only for abnormal)
}

impl Merged {
    pub fn c(&self, k: &str) -> u64 {
        *self.cnt.get(k).unwrap_or(&0)
    }
    pub fn m(&self, k: &str) -> u64 {
        *self.max.get(k).unwrap_or(&0)
    }
    pub fn cnt_prefix(&self, p: &str) -> J {
        J::Obj(
            self.cnt
                .iter()
                .filter(|(k, _)| k.starts_with(p))
                .map(|(k, v)| (k[p.len()..].to_string(), J::Int(*v as i128)))
                .collect(),
        )
    }
}

pub struct ChildResult {
    pub code: Option<i32>,
    pub signal: Option<i32>,
    pub timed_out: bool,
    pub stdout: String,
    pub stderr: String,
    pub wall: f64,
}

pub fn run_one(job: &Job) -> ChildResult {
    use std::os::unix::process::ExitStatusExt;
    let t0 = Instant::now();
    let mut cmd = Command::new(&job.program);
    cmd.args(&job.args)
        .stdin(Stdio::null())
        .stdout(Stdio::piped())
        .stderr(Stdio::piped());
    for (k, v) in &job.env {
        cmd.env(k, v);
    }
    cmd.env("RUST_BACKTRACE", "0");
    if let Some(d) = &job.cwd {
        cmd.current_dir(d);
    }
    let mut child = match cmd.spawn() {
        Ok(c) => c,
        Err(e) => {
            return ChildResult {
                code: None,
                signal: None,
                timed_out: false,
                stdout: String::new(),
                stderr: format!("spawn failed: {}", e),
                wall: 0.0,
            }
        }
    };
    let mut so = child.stdout.take().unwrap();
    let mut se = child.stderr.take().unwrap();
    let th_o = std::thread::spawn(move || {
        let mut s = Vec::new();
        let _ = so.read_to_end(&mut s);
        String::from_utf8_lossy(&s).into_owned()
    });
    let th_e = std::thread::spawn(move || {
        let mut s = Vec::new();
        let _ = se.read_to_end(&mut s);
        let s = String::from_utf8_lossy(&s).into_owned();
        // keep the tail only
        if s.len() > 20000 {
            s[s.len() - 20000..].to_string()
        } else {
            s
        }
    });
    let deadline = t0 + Duration::from_secs(job.timeout_s);
    let mut timed_out = false;
    let status = loop {
        match child.try_wait() {
            Ok(Some(st)) => break Some(st),
            Ok(None) => {
                if Instant::now() > deadline {
                    timed_out = true;
                    let _ = child.kill();
                    break child.wait().ok();
                }
                std::thread::sleep(Duration::from_millis(20));
            }
            Err(_) => break None,
        }
    };
    let stdout = th_o.join().unwrap_or_default();
    let stderr = th_e.join().unwrap_or_default();
    ChildResult {
        code: status.and_then(|s| s.code()),
        signal: status.and_then(|s| s.signal()),
        timed_out,
        stdout,
        stderr,
        wall: t0.elapsed().as_secs_f64(),
    }
}

/// Runs all jobs with at most `par` at once and merges the results.
pub fn run_jobs(jobs: Vec<Job>, par: usize, prop: &str) -> Merged {
    let mut merged = Merged::default();
    let n = jobs.len();
    let jobs = std::sync::Arc::new(jobs);
    let next = std::sync::Arc::new(std::sync::atomic::AtomicUsize::new(0));
    let (tx, rx) = std::sync::mpsc::channel::<(usize, ChildResult)>();
    let mut ths = vec![];
    for _ in 0..par.min(n).max(1) {
        let jobs = jobs.clone();
        let next = next.clone();
        let tx = tx.clone();
        ths.push(std::thread::spawn(move || loop {
            let i = next.fetch_add(1, std::sync::atomic::Ordering::SeqCst);
            if i >= jobs.len() {
                break;
            }
            let r = run_one(&jobs[i]);
            if tx.send((i, r)).is_err() {
                break;
            }
        }));
    }
    drop(tx);
    for (i, r) in rx {
        merge_child(&mut merged, &jobs[i], r, prop);
    }
    for t in ths {
        let _ = t.join();
    }
    merged
}

fn tail(s: &str, n: usize) -> String {
    let lines: Vec<&str> = s.lines().collect();
    let st = lines.len().saturating_sub(n);
    lines[st..].join("\n")
}

pub fn merge_child(m: &mut Merged, job: &Job, r: ChildResult, prop: &str) {
    m.jobs_run += 1;
    let mut done = false;
    let mut last_at = String::new();
    for line in r.stdout.lines() {
        let mut it = line.splitn(2, ' ');
        let tag = it.next().unwrap_or("");
        let rest = it.next().unwrap_or("");
        match tag {
            "CNT" => {
                let mut p = rest.rsplitn(2, ' ');
                let v = p.next().and_then(|x| x.parse::<u64>().ok());
                let k = p.next();
                if let (Some(k), Some(v)) = (k, v) {
                    *m.cnt.entry(k.to_string()).or_insert(0) += v;
                }
            }
            "MAX" => {
                let mut p = rest.rsplitn(2, ' ');
                let v = p.next().and_then(|x| x.parse::<u64>().ok());
                let k = p.next();
                if let (Some(k), Some(v)) = (k, v) {
                    let e = m.max.entry(k.to_string()).or_insert(0);
                    if v > *e {
                        *e = v;
                    }
                }
            }
            "H" => {
                if let Ok(h) = u64::from_str_radix(rest.trim(), 16) {
                    m.hashes.insert(h);
                }
            }
            "SAMPLE" => {
                if m.samples.len() < 6 {
                    if let Ok(j) = json::parse(rest) {
                        m.samples.push(j);
                    }
                }
            }
            "VIOL" => {
                let mut p = rest.splitn(3, ' ');
                let vp = p.next().unwrap_or("").to_string();
                let sig = p.next().unwrap_or("").to_string();
                let detail = p.next().and_then(|x| json::parse(x).ok()).unwrap_or(J::Null);
                m.viols.push(Viol {
                    prop: vp,
                    sig,
                    detail,
                    job: job.label.clone(),
                    argv: job.args.clone(),
                });
            }
            "INCONC" => m.inconc.push(format!("{}: {}", job.label, rest)),
            "NOTE" => {
                if m.notes.len() < 50 {
                    m.notes.push(format!("{}: {}", job.label, rest))
                }
            }
            "AT" => last_at = rest.to_string(),
            "DONE" => done = true,
            _ => {}
        }
    }
    if r.timed_out {
        m.jobs_timed_out += 1;
        m.inconc.push(format!(
            "{}: watchdog fired after {}s (last case: {})",
            job.label, job.timeout_s, last_at
        ));
        m.raw.push((job.label.clone(), -1, tail(&r.stdout, 5), tail(&r.stderr, 15)));
        return;
    }
    if done && r.code == Some(0) {
        m.jobs_done += 1;
        return;
    }
    if let Some(c) = r.code {
        if job.report_codes.contains(&c) && !crate::sanit::classify(&r.stderr).starts_with("unknown") {
            // sanitizer report: engine-specific parser handles stderr; pass it up as a violation candidate
            m.viols.push(Viol {
                prop: prop.to_string(),
                sig: format!("sanitizer-report:{}{}", crate::sanit::classify(&r.stderr), job.sig_suffix),
                detail: crate::jobj!("stderr_tail" => tail(&r.stderr, 60), "last_case" => last_at.clone(), "exit" => c),
                job: job.label.clone(),
                argv: job.args.clone(),
            });
            m.jobs_done += 1;
            return;
        }
    }
    m.jobs_died += 1;
    let code = r.code.unwrap_or(-(r.signal.unwrap_or(0)));
    m.raw.push((job.label.clone(), code, tail(&r.stdout, 5), tail(&r.stderr, 25)));
    match job.death {
        Death::Violation if (r.signal.is_some() && r.signal != Some(15) && r.signal != Some(9)) || r.code == Some(101) || r.code == Some(134) => {
            let what = if let Some(s) = r.signal {
                format!("signal{}", s)
            } else {
                format!("exit{}", r.code.unwrap())
            };
            m.viols.push(Viol {
                prop: prop.to_string(),
                sig: format!("child-died:{}{}", what, job.sig_suffix),
                detail: crate::jobj!("last_case" => last_at, "stderr_tail" => tail(&r.stderr, 25)),
                job: job.label.clone(),
                argv: job.args.clone(),
            });
        }
        _ => m.inconc.push(format!(
            "{}: child ended abnormally (code {:?} signal {:?}): {}",
            job.label,
            r.code,
            r.signal,
            tail(&r.stderr, 3)
        )),
    }
}

// ---------------------------------------------------------------------------------------------

#[derive(Clone, Debug)]
pub struct Known {
    pub status: String,
    pub property: String,
    pub signature: String,
    pub what: String,
}

pub fn load_known() -> Vec<Known> {
    let p = format!("{}/known_findings.json", VERIF_DIR);
    let Ok(s) = std::fs::read_to_string(&p) else {
        return vec![];
    };
    let Ok(j) = json::parse(&s) else {
        eprintln!("warning: {} does not parse; treating as empty", p);
        return vec![];
    };
    let mut out = vec![];
    if let Some(a) = j.get("findings").and_then(|x| x.as_arr()) {
        for f in a {
            let g = |k: &str| f.get(k).and_then(|x| x.as_str()).unwrap_or("").to_string();
            out.push(Known {
                status: g("status"),
                property: g("property"),
                signature: g("signature"),
                what: g("what"),
            });
        }
    }
    out
}

pub struct Verdict {
    pub exit: i32,
    pub new_viols: usize,
    pub known_hits: BTreeMap<String, u64>,
}

pub struct EvidenceSpec {
    pub prop: String,
    pub tier: String,
    pub seed: u64,
    pub level: String,
    pub rule: String,
    pub evaluations: u64,
    pub extra: Vec<(String, J)>,
    pub assumptions: Vec<String>,
    /// minimum requirements; unmet => inconclusive
    pub min_eval: u64,
    pub min_distinct: u64,
    pub required_nonzero: Vec<String>,
    pub wall_s: f64,
    pub exhaustive: bool,
}

/// Decide the verdict, print the protocol lines, write evidence (+ replay files). Returns the exit code.
pub fn finish(spec: EvidenceSpec, m: &Merged) -> i32 {
    let known = load_known();
    let mut known_hits: BTreeMap<String, (u64, String)> = BTreeMap::new();
    let mut new_viols: Vec<&Viol> = vec![];
    let mut other_props = 0u64;
    for v in &m.viols {
        if v.prop != spec.prop {
            other_props += 1;
            continue;
        }
        if let Some(k) = known
            .iter()
            .find(|k| k.status == "known" && k.property == v.prop && k.signature == v.sig)
        {
            let e = known_hits.entry(k.signature.clone()).or_insert((0, k.what.clone()));
            e.0 += 1;
        } else {
            new_viols.push(v);
        }
    }
    for (sig, (n, what)) in &known_hits {
        println!(
            "KNOWN-FINDING: property={} {} [signature={} seen={}x]",
            spec.prop, what, sig, n
        );
    }
    let mut exit = 0;
    let mut replay_paths = vec![];
    if !new_viols.is_empty() {
        exit = 1;
        let dir = format!("{}/replays/{}", VERIF_DIR, spec.prop);
        let _ = std::fs::create_dir_all(&dir);
        let mut seen = HashSet::new();
        for v in new_viols.iter() {
            if !seen.insert(v.sig.clone()) {
                continue;
            }
            if seen.len() > 8 {
                break;
            }
            let h = crate::util::rng::mix(
                crate::util::rng::splitmix(spec.seed),
                v.sig.bytes().fold(0u64, |a, b| crate::util::rng::mix(a, b as u64)),
            );
            let path = format!("{}/{:016x}.json", dir, h);
            let rj = crate::jobj!(
                "property" => spec.prop.clone(),
                "signature" => v.sig.clone(),
                "tier" => spec.tier.clone(),
                "seed" => spec.seed,
                "job" => v.job.clone(),
                "argv" => J::Arr(v.argv.iter().map(|s| J::Str(s.clone())).collect()),
                "detail" => v.detail.clone(),
            );
            let _ = std::fs::write(&path, rj.pretty());
            println!("VIOLATION property={} replay={}", spec.prop, path);
            println!("  signature: {}", v.sig);
            let d = v.detail.dump();
            println!("  detail: {}", if d.len() > 1500 { &d[..1500] } else { &d });
            replay_paths.push(path);
        }
    }
    // inconclusive?
    let distinct = m.hashes.len() as u64;
    let mut inconc: Vec<String> = vec![];
    if exit == 0 {
        if spec.evaluations < spec.min_eval {
            inconc.push(format!("only {} evaluations (< {})", spec.evaluations, spec.min_eval));
        }
        if distinct < spec.min_distinct.max(2) {
            inconc.push(format!(
                "only {} distinct non-trivial cases (< {})",
                distinct,
                spec.min_distinct.max(2)
            ));
        }
        for k in &spec.required_nonzero {
            if m.c(k) == 0 {
                inconc.push(format!("monitor counter '{}' stayed at zero", k));
            }
        }
        if m.jobs_done == 0 {
            inconc.push("no child job completed".into());
        }
        // any job that timed out / died non-attributably makes the verdict inconclusive only if
        // it removed more than a quarter of the planned work
        if (m.jobs_timed_out + m.jobs_died) * 4 > m.jobs_run.max(1) {
            inconc.push(format!(
                "{} of {} jobs timed out or ended abnormally",
                m.jobs_timed_out + m.jobs_died,
                m.jobs_run
            ));
        }
        if !inconc.is_empty() {
            exit = 2;
        }
    }
    // evidence
    let mut cov = J::obj();
    cov.set("evaluations", spec.evaluations.max(0));
    cov.set("distinct_nontrivial", distinct);
    cov.set("rule", spec.rule.clone());
    cov.set(
        "samples",
        J::Arr(if m.samples.is_empty() {
            vec![J::Str("(no sample emitted)".into())]
        } else {
            m.samples.clone()
        }),
    );
    if spec.exhaustive {
        cov.set("exhaustive", true);
    }
    for (k, v) in &spec.extra {
        cov.set(k, v.clone());
    }
    cov.set(
        "jobs",
        crate::jobj!("run" => m.jobs_run, "completed" => m.jobs_done, "timed_out" => m.jobs_timed_out, "died" => m.jobs_died),
    );
    cov.set("inconclusive_reasons", J::Arr(m.inconc.iter().chain(inconc.iter()).take(20).map(|s| J::Str(s.clone())).collect()));
    cov.set(
        "known_findings_matched",
        J::Obj(known_hits.iter().map(|(k, (n, _))| (k.clone(), J::Int(*n as i128))).collect()),
    );
    cov.set("violations_of_other_properties_seen", other_props);
    cov.set(
        "verdict",
        match exit {
            0 => "held on everything observed",
            1 => "violated",
            _ => "inconclusive",
        },
    );
    if !m.notes.is_empty() {
        cov.set("notes", J::Arr(m.notes.iter().take(12).map(|s| J::Str(s.clone())).collect()));
    }
    let ev = crate::jobj!(
        "property_id" => spec.prop.clone(),
        "tier" => spec.tier.clone(),
        "seed" => spec.seed,
        "level" => spec.level.clone(),
        "coverage" => cov,
        "assumptions" => J::Arr(spec.assumptions.iter().map(|s| J::Str(s.clone())).collect()),
        "wall_s" => spec.wall_s,
        "violations" => new_viols.len(),
    );
    let _ = std::fs::create_dir_all(format!("{}/evidence", VERIF_DIR));
    let path = format!("{}/evidence/{}.json", VERIF_DIR, spec.prop);
    if let Err(e) = std::fs::write(&path, ev.pretty()) {
        eprintln!("cannot write evidence {}: {}", path, e);
    }
    match exit {
        0 => println!(
            "OK property={} tier={} seed={} evaluations={} distinct_nontrivial={} wall={:.1}s",
            spec.prop, spec.tier, spec.seed, spec.evaluations, distinct, spec.wall_s
        ),
        2 => {
            println!(
                "INCONCLUSIVE property={} reason={}",
                spec.prop,
                m.inconc.iter().chain(inconc.iter()).take(4).cloned().collect::<Vec<_>>().join(" | ")
            );
            for (l, c, o, e) in m.raw.iter().take(3) {
                println!("  job {} code {}:\n{}\n{}", l, c, o, e);
            }
        }
        _ => {}
    }
    exit
}
