//! E-SCHED: hook-serialised schedule fuzzer for sync::Arena.
//!
//! Worker OS threads run generated programs on clones of one arena.  The `before` callback of
//! the wrapper atomics is a yield point of a token-passing scheduler (one runnable thread at a
//! time), so an execution is a total order of the crate's atomic accesses, replayable from
//! (seed, program, strategy).  The `after` callback feeds the monitors:
//!   M-overlap / M-intact / trace rule (C02), M-progress (C07), M-hb vector clocks (C12),
//!   M-refs (C13).

use crate::arena::*;
use crate::util::json::J;
use crate::util::rng::{mix, Rng};
use rarena_allocator::verif_hooks::{self as vhk, Access, Directive, Event, Pending};
use rarena_allocator::{sync, Allocator};
use std::cell::Cell;
use std::collections::HashMap;
use std::sync::atomic::Ordering as AO;
use std::sync::{Condvar, Mutex, MutexGuard};

pub const MAIN: usize = 0; // thread index 0 is the main (prelude) thread

thread_local! {
    pub static TID: Cell<usize> = const { Cell::new(usize::MAX) };
    pub static IN_MONITOR: Cell<bool> = const { Cell::new(false) };
}

/// Payload used to unwind workers of an abandoned run.
pub struct AbortRun;

#[derive(Clone, Debug, PartialEq)]
pub enum Strategy {
    /// switch to a random other runnable thread with probability num/100 at every yield point
    Random(u32),
    /// PCT: random priorities, `d` priority change points spread over the expected run length
    Pct(u32),
    /// run thread `t` alone until it is about to perform atomic event `k` of its operation `op`,
    /// park it there until every other thread has finished or is spinning, then resume it
    Pause { t: usize, op: usize, k: usize },
    /// at every yield point the running thread is parked with probability q% for 3..max scheduler
    /// steps while the others run (long gaps between a load and the RMW that depends on it)
    Delay(u32, u32),
}

#[derive(Clone, Debug)]
pub struct VC(pub Vec<u32>);
impl VC {
    pub fn new(n: usize) -> VC {
        VC(vec![0; n])
    }
    pub fn join(&mut self, o: &VC) {
        for (a, b) in self.0.iter_mut().zip(o.0.iter()) {
            if *b > *a {
                *a = *b;
            }
        }
    }
}

#[derive(Clone, Debug)]
pub struct LiveRange {
    pub owner: usize,
    pub hid: u64,
    pub off: u32,
    pub cap: u32,
    pub kind: HKind,
    pub recycled: bool,
    pub expected: Vec<u8>,
}

#[derive(Clone, Debug)]
pub struct Viol {
    pub props: Vec<&'static str>,
    pub sig: String,
    pub msg: String,
    pub ring: Vec<String>,
}

#[derive(Clone, Debug, Default)]
pub struct OpCtx {
    pub kind: &'static str,
    pub index: usize,
    pub events: usize,
}

pub struct Core {
    pub active: bool,
    pub n: usize,
    pub current: usize,
    pub finished: Vec<bool>,
    pub started: Vec<bool>,
    pub rng: Rng,
    pub strategy: Strategy,
    pub replay: Option<Vec<u8>>,
    pub schedule: Vec<u8>,
    pub sched_hash: u64,
    pub steps: u64,
    pub events: u64,
    pub since_write: Vec<u64>,
    pub spinning: Vec<bool>,
    pub k_spin: u64,
    pub b_budget: u64,
    pub max_since_write_seen: u64,
    pub abort: bool,
    pub hang: bool,
    pub viols: Vec<Viol>,
    pub ring: Vec<String>,
    pub op: Vec<OpCtx>,
    pub preemptions: u64,
    pub windows: HashMap<String, u64>,
    pub spurious_pct: u32,
    pub spurious_injected: u64,
    // pct
    pub prio: Vec<u32>,
    pub change_points: Vec<u64>,
    // pause strategy
    pub pause_hit: bool,
    pub pause_released: bool,
    // arena
    pub base: usize,
    pub cap: usize,
    pub data_offset: usize,
    // monitors
    pub live: Vec<LiveRange>,
    pub vc: Vec<VC>,
    pub rel: HashMap<usize, VC>,
    pub released_by: Vec<(u8, u32)>, // per arena byte: (thread+1, epoch); 0 = none
    pub last_access: Vec<u32>,       // per thread: own epoch at its last arena access / buffer access
    pub handover_checks: u64,
    pub trace_rule_checks: u64,
    pub intact_checks: u64,
    pub final_free_checks: u64,
    pub last_decrement_by: Option<usize>,
    pub mailbox_vc: Option<VC>,
    pub family_b: bool,
    pub free_running: bool,
    pub holders: i64,
    pub refs_checks: u64,
    pub refs_busy: Vec<bool>,
    /// address of the bump cursor word (learned from the first CAS the fast path performs on it)
    pub cursor_addr: usize,
    pub parked_until: Vec<u64>,
    /// per node address: who marked it as removed and what became of its unlink CAS
    pub marks: HashMap<usize, (usize, &'static str)>,
    pub pending_unlink: Vec<Option<usize>>,
    /// per thread: the node it last saw marked as removed (what it is waiting for when it spins)
    pub last_removed_seen: Vec<Option<usize>>,
    pub sentinel_addr: usize,
    pub c03_checks: u64,
    pub c08_checks: u64,
    pub c08_recycled_checks: u64,
    /// free list as walked (raw reads) at the moment a hang was declared
    pub hang_list: Vec<(u32, u32, u32)>,
    /// unlink CASes that succeeded on a predecessor that was not reachable from the sentinel at
    /// that moment: (thread, predecessor address, address of the node that was to be unlinked)
    pub stale_unlinks: Vec<(usize, usize, usize)>,
    /// (thread, node) of successful mark CASes applied to a node that was not reachable from the sentinel
    pub stale_marks: Vec<(usize, usize)>,
    /// (thread, predecessor, node, next offset written) of successful unlink CASes that followed such a mark
    pub stale_mark_unlinks: Vec<(usize, usize, usize, u32)>,
}

pub struct Sched {
    pub mu: Mutex<Core>,
    pub cvs: Vec<Condvar>,
}

pub const MAX_THREADS: usize = 6;

static SCHED: std::sync::OnceLock<Sched> = std::sync::OnceLock::new();

pub fn sched() -> &'static Sched {
    SCHED.get_or_init(|| Sched {
        mu: Mutex::new(Core::empty()),
        cvs: (0..MAX_THREADS).map(|_| Condvar::new()).collect(),
    })
}

pub fn lock() -> MutexGuard<'static, Core> {
    match sched().mu.lock() {
        Ok(g) => g,
        Err(p) => p.into_inner(),
    }
}

impl Core {
    pub fn empty() -> Core {
        Core {
            active: false,
            n: 0,
            current: 0,
            finished: vec![],
            started: vec![],
            rng: Rng::new(1),
            strategy: Strategy::Random(30),
            replay: None,
            schedule: vec![],
            sched_hash: 0,
            steps: 0,
            events: 0,
            since_write: vec![],
            spinning: vec![],
            k_spin: 300,
            b_budget: 8000,
            max_since_write_seen: 0,
            abort: false,
            hang: false,
            viols: vec![],
            ring: vec![],
            op: vec![],
            preemptions: 0,
            windows: HashMap::new(),
            spurious_pct: 0,
            spurious_injected: 0,
            prio: vec![],
            change_points: vec![],
            pause_hit: false,
            pause_released: false,
            base: 0,
            cap: 0,
            data_offset: 0,
            live: vec![],
            vc: vec![],
            rel: HashMap::new(),
            released_by: vec![],
            last_access: vec![],
            handover_checks: 0,
            trace_rule_checks: 0,
            intact_checks: 0,
            final_free_checks: 0,
            last_decrement_by: None,
            mailbox_vc: None,
            family_b: false,
            free_running: false,
            holders: 0,
            refs_checks: 0,
            refs_busy: vec![],
            cursor_addr: 0,
            parked_until: vec![],
            marks: HashMap::new(),
            pending_unlink: vec![],
            last_removed_seen: vec![],
            sentinel_addr: 0,
            c03_checks: 0,
            c08_checks: 0,
            c08_recycled_checks: 0,
            hang_list: vec![],
            stale_unlinks: vec![],
            stale_marks: vec![],
            stale_mark_unlinks: vec![],
        }
    }

    pub fn viol(&mut self, props: &[&'static str], sig: String, msg: String) {
        if self.viols.len() < 8 {
            let ring = self.ring.iter().rev().take(ring_cap().max(48)).rev().cloned().collect();
            self.viols.push(Viol { props: props.to_vec(), sig, msg, ring });
        }
    }

    fn runnable(&self, t: usize) -> bool {
        t != MAIN && t < self.n && self.started[t] && !self.finished[t]
    }

    fn ring_push(&mut self, s: String) {
        if self.ring.len() >= ring_cap() {
            self.ring.remove(0);
        }
        self.ring.push(s);
    }

    /// choose who runs next (called by the thread `me` that holds the token)
    fn pick(&mut self, me: usize) -> usize {
        let cands: Vec<usize> = (1..self.n).filter(|t| self.runnable(*t)).collect();
        if cands.is_empty() {
            return me;
        }
        if let Some(r) = &self.replay {
            let i = self.schedule.len();
            if i < r.len() && cands.contains(&(r[i] as usize)) {
                return r[i] as usize;
            }
        }
        let calm: Vec<usize> = cands.iter().copied().filter(|t| !self.spinning[*t]).collect();
        // a spinning thread yields to the others (fairness assumption of C07)
        let pool: &Vec<usize> = if calm.is_empty() { &cands } else { &calm };
        if calm.is_empty() && !matches!(self.strategy, Strategy::Pause { .. }) {
            return *cands.iter().min_by_key(|x| self.since_write[**x]).unwrap();
        }
        match self.strategy.clone() {
            Strategy::Random(p) => {
                if pool.contains(&me) && self.rng.below(100) >= p as u64 {
                    me
                } else {
                    let others: Vec<usize> = pool.iter().copied().filter(|t| *t != me).collect();
                    if others.is_empty() {
                        if pool.contains(&me) {
                            me
                        } else {
                            pool[0]
                        }
                    } else {
                        others[self.rng.usize(others.len())]
                    }
                }
            }
            Strategy::Delay(q, max) => {
                if self.parked_until.len() < self.n {
                    self.parked_until = vec![0; self.n];
                }
                if pool.contains(&me) && self.rng.below(100) < q as u64 {
                    self.parked_until[me] = self.steps + 3 + self.rng.below(max as u64);
                }
                let awake: Vec<usize> = pool.iter().copied().filter(|t| self.parked_until[*t] <= self.steps).collect();
                if awake.is_empty() {
                    // everybody is parked: wake the one whose time is up first
                    *pool.iter().min_by_key(|t| self.parked_until[**t]).unwrap()
                } else if awake.contains(&me) && self.rng.below(100) >= 25 {
                    me
                } else {
                    awake[self.rng.usize(awake.len())]
                }
            }
            Strategy::Pct(_) => {
                if self.change_points.contains(&self.steps) && self.runnable(me) {
                    let lowest = self.prio.iter().copied().min().unwrap_or(1);
                    self.prio[me] = lowest.saturating_sub(1);
                }
                *pool.iter().max_by_key(|t| self.prio[**t]).unwrap()
            }
            Strategy::Pause { t, op, k } => {
                if !self.pause_hit {
                    // run t alone until its pause point
                    if self.runnable(t) {
                        if me == t && self.op[t].index == op && self.op[t].events == k {
                            self.pause_hit = true;
                        } else {
                            return t;
                        }
                    } else {
                        self.pause_hit = true;
                        self.pause_released = true;
                    }
                }
                if !self.pause_released {
                    let others: Vec<usize> = pool.iter().copied().filter(|x| *x != t).collect();
                    let others_calm: Vec<usize> = others.iter().copied().filter(|x| !self.spinning[*x]).collect();
                    if others_calm.is_empty() {
                        self.pause_released = true;
                    } else if others_calm.contains(&me) && self.rng.below(100) >= 20 {
                        return me;
                    } else {
                        return others_calm[self.rng.usize(others_calm.len())];
                    }
                }
                if self.runnable(t) && !self.spinning[t] {
                    t
                } else if calm.is_empty() {
                    // everybody spins: give each of them its turn, so that M-progress can reach its verdict
                    *pool.iter().min_by_key(|x| self.since_write[**x]).unwrap()
                } else if pool.contains(&me) {
                    me
                } else {
                    pool[self.rng.usize(pool.len())]
                }
            }
        }
    }
}

/// The yield point: called with the token held by `me`.
fn yield_point(me: usize, pend: Option<&Pending>) {
    let s = sched();
    let mut c = lock();
    if !c.active || c.free_running {
        return;
    }
    if c.abort {
        drop(c);
        std::panic::panic_any(AbortRun);
    }
    c.steps += 1;
    c.since_write[me] += 1;
    if c.since_write[me] > c.k_spin {
        c.spinning[me] = true;
    }
    // M-progress: every unfinished thread has burnt its budget since the last successful write
    let unfinished: Vec<usize> = (1..c.n).filter(|t| c.runnable(*t)).collect();
    if !unfinished.is_empty() && unfinished.iter().all(|t| c.since_write[*t] > c.b_budget) {
        c.hang = true;
        // witness: walk the free list with raw reads while every thread is parked
        if c.sentinel_addr != 0 {
            let mut list = vec![];
            let mut next = unsafe { *(c.sentinel_addr as *const u64) } as u32;
            while next != u32::MAX && list.len() < 64 && (next as usize) + 8 <= c.cap && next % 8 == 0 {
                let w = unsafe { *((c.base + next as usize) as *const u64) };
                list.push((next, (w >> 32) as u32, w as u32));
                next = w as u32;
            }
            c.hang_list = list;
        }
        c.abort = true;
        for cv in s.cvs.iter() {
            cv.notify_all();
        }
        drop(c);
        std::panic::panic_any(AbortRun);
    }
    let next = c.pick(me);
    c.schedule.push(next as u8);
    c.sched_hash = mix(c.sched_hash, next as u64);
    if next != me {
        c.preemptions += 1;
        {
            let o = &c.op[me];
            let key = match pend {
                Some(p) => format!("{}#{}:{:?}", o.kind, o.events.min(40), p.access),
                None => format!("{}#{}:BeforeZeroing", o.kind, o.events.min(40)),
            };
            *c.windows.entry(key).or_insert(0) += 1;
        }
        c.current = next;
        s.cvs[next].notify_all();
        while c.current != me && !c.abort {
            c = match s.cvs[me].wait(c) {
                Ok(g) => g,
                Err(p) => p.into_inner(),
            };
        }
        if c.abort {
            drop(c);
            std::panic::panic_any(AbortRun);
        }
    }
}

fn hook_before(p: &Pending) -> Directive {
    let me = TID.with(|t| t.get());
    if me == usize::MAX || me == MAIN || std::thread::panicking() || IN_MONITOR.with(|m| m.get()) {
        return Directive::Proceed;
    }
    yield_point(me, Some(p));
    if p.access == Access::CasWeak {
        let mut c = lock();
        if c.active && c.spurious_pct > 0 && c.rng.below(100) < c.spurious_pct as u64 {
            c.spurious_injected += 1;
            return Directive::SpuriousFail;
        }
    }
    Directive::Proceed
}

fn is_acq(o: AO) -> bool {
    matches!(o, AO::Acquire | AO::AcqRel | AO::SeqCst)
}
fn is_rel(o: AO) -> bool {
    matches!(o, AO::Release | AO::AcqRel | AO::SeqCst)
}

fn hook_after(e: &Event) {
    let me = TID.with(|t| t.get());
    if me == usize::MAX || std::thread::panicking() || IN_MONITOR.with(|m| m.get()) {
        return;
    }
    let mut c = lock();
    if !c.active || me >= c.n {
        return;
    }
    c.events += 1;
    c.op[me].events += 1;
    if e.wrote {
        let m = c.since_write.iter().copied().max().unwrap_or(0);
        if m > c.max_since_write_seen {
            c.max_since_write_seen = m;
        }
        for t in 0..c.n {
            c.since_write[t] = 0;
            c.spinning[t] = false;
        }
    }
    let line = format!(
        "T{} {}#{} {:?}@{} {}:{} read={:#x} new={:#x} wrote={} {:?}/{:?}",
        me,
        c.op[me].kind,
        c.op[me].events,
        e.access,
        if e.addr >= c.base && e.addr < c.base + c.cap { format!("arena+{}", e.addr - c.base) } else { "header".to_string() },
        e.file.rsplit('/').next().unwrap_or(""),
        e.line,
        e.read,
        e.written,
        e.wrote,
        e.order,
        e.fail_order
    );
    c.ring_push(line);
    // ---- vector clocks (C++20 release sequences; SeqCst treated as AcqRel) -------------------
    c.vc[me].0[me] += 1;
    let addr = e.addr;
    match e.access {
        Access::Load => {
            if is_acq(e.order) {
                if let Some(r) = c.rel.get(&addr).cloned() {
                    c.vc[me].join(&r);
                }
            }
        }
        Access::Store => {
            if is_rel(e.order) {
                let v = c.vc[me].clone();
                c.rel.insert(addr, v);
            } else {
                c.rel.remove(&addr);
            }
        }
        Access::Cas | Access::CasWeak | Access::FetchAdd | Access::FetchSub => {
            if e.wrote {
                if is_acq(e.order) {
                    if let Some(r) = c.rel.get(&addr).cloned() {
                        c.vc[me].join(&r);
                    }
                }
                if is_rel(e.order) {
                    let mine = c.vc[me].clone();
                    c.rel.entry(addr).and_modify(|r| r.join(&mine)).or_insert(mine);
                }
                // a relaxed RMW continues the release sequence: keep the entry as it is
            } else if is_acq(e.fail_order) {
                if let Some(r) = c.rel.get(&addr).cloned() {
                    c.vc[me].join(&r);
                }
            }
        }
    }
    // ---- trace rule (C02/C12): the arena never touches a range that is live for somebody else --
    if addr >= c.base && addr < c.base + c.cap {
        let off = (addr - c.base) as u32;
        let w = e.width as u32;
        c.trace_rule_checks += 1;
        let mut hit: Option<LiveRange> = None;
        for l in c.live.iter() {
            if l.cap > 0 && off < l.off + l.cap && l.off < off + w {
                hit = Some(l.clone());
                break;
            }
        }
        if let Some(l) = hit {
            let val_class = if e.wrote && (e.written >> 32) == 0 { "mark-removed" } else if e.wrote { "node-update" } else { "read" };
            let victim = format!("{}{}", match l.kind { HKind::Bytes => "bytes", HKind::Aligned(_) => "aligned", HKind::Typed(_) => "typed" }, if l.recycled { "-recycled" } else { "-fresh" });
            if e.wrote {
                let msg = format!("T{} {:?} at arena+{} ({}:{}) wrote {:#x} into live range #{} [{},+{}) owned by T{} ({:?})", me, e.access, off, e.file.rsplit('/').next().unwrap_or(""), e.line, e.written, l.hid, l.off, l.cap, l.owner, l.kind);
                c.viol(&["C02", "C12"], format!("stale-freelist-write:{}:{}:{}", victim, access_name(e.access), val_class), msg);
            } else {
                let msg = format!("T{} {:?} at arena+{} ({}:{}) atomically read user data of live range #{} [{},+{}) owned by T{} ({:?})", me, e.access, off, e.file.rsplit('/').next().unwrap_or(""), e.line, l.hid, l.off, l.cap, l.owner, l.kind);
                c.viol(&["C12"], format!("stale-freelist-read:{}:{}", victim, access_name(e.access)), msg);
            }
        }
    }
    // ---- removal protocol bookkeeping (for the witness shape of C07 verdicts) --------------------
    if c.pending_unlink.len() < c.n {
        c.pending_unlink = vec![None; c.n];
    }
    if c.last_removed_seen.len() < c.n {
        c.last_removed_seen = vec![None; c.n];
    }
    if e.access == Access::Load && e.width == 8 && addr >= c.base && addr < c.base + c.cap {
        c.last_removed_seen[me] = if (e.read >> 32) == 0 { Some(addr) } else { None };
    }
    if e.width == 8 && (e.read >> 32) == 0xffff_ffff && c.sentinel_addr == 0 {
        c.sentinel_addr = addr;
    }
    let in_arena_or_header = true;
    if in_arena_or_header && matches!(e.access, Access::Cas) {
        if let Some(node) = c.pending_unlink[me] {
            if node != addr {
                // the CAS that follows a successful mark is the unlink from the predecessor
                let st = if e.wrote { "unlink-succeeded" } else { "unlink-failed" };
                c.marks.insert(node, (me, st));
                if e.wrote && c.sentinel_addr != 0 && addr != c.sentinel_addr && !reachable(&c, addr) {
                    // every other thread is parked: the raw walk sees the list as it is
                    c.stale_unlinks.push((me, addr, node));
                }
                if e.wrote && c.stale_marks.iter().any(|(t, n)| *t == me && *n == node) {
                    // the node was not in the list when this thread marked it (it had been popped and was being
                    // re-inserted); the unlink nevertheless succeeded (the predecessor's word had the expected value
                    // again) and wrote the successor the thread had read from the unlinked node
                    c.stale_mark_unlinks.push((me, addr, node, e.written as u32));
                }
                c.pending_unlink[me] = None;
            }
        }
        if e.wrote && (e.written >> 32) == 0 && (e.expected >> 32) != 0 && e.width == 8 && addr >= c.base && addr < c.base + c.cap {
            c.marks.insert(addr, (me, "marked"));
            c.pending_unlink[me] = Some(addr);
            if c.sentinel_addr != 0 && !reachable(&c, addr) {
                c.stale_marks.push((me, addr));
            }
        }
    }
    if e.access == Access::Store && e.width == 8 && (e.written >> 32) != 0 {
        if let Some(m) = c.marks.get_mut(&addr) {
            m.1 = "restored-or-reinserted";
        }
    }
    // ---- teardown bookkeeping: who performed the last decrement of refs --------------------------
    if e.access == Access::FetchSub && e.read == 1 && e.width == 8 {
        c.last_decrement_by = Some(me);
    }
}

/// Is the node at `target` reachable from the sentinel? (raw reads; called with every thread parked)
fn reachable(c: &Core, target: usize) -> bool {
    let mut next = unsafe { *(c.sentinel_addr as *const u64) } as u32;
    let mut n = 0;
    while next != u32::MAX && n < 256 && (next as usize) + 8 <= c.cap && next % 8 == 0 {
        if c.base + next as usize == target {
            return true;
        }
        let w = unsafe { *((c.base + next as usize) as *const u64) };
        next = w as u32;
        n += 1;
    }
    false
}

fn access_name(a: Access) -> &'static str {
    match a {
        Access::Load => "load",
        Access::Store => "store",
        Access::Cas | Access::CasWeak => "cas",
        Access::FetchAdd | Access::FetchSub => "rmw",
    }
}

fn hook_zeroed(addr: usize, len: usize) {
    let me = TID.with(|t| t.get());
    if me == usize::MAX || std::thread::panicking() || IN_MONITOR.with(|m| m.get()) {
        return;
    }
    // The notification arrives before the memset: a scheduling point here is a preemption between the
    // atomic access that preceded the zeroing and the zeroing itself (without it a thread could only be
    // stopped in front of its atomic accesses, never between one of them and a plain write that follows).
    if me != MAIN {
        yield_point(me, None);
    }
    let mut c = lock();
    if !c.active || me >= c.n || addr < c.base || addr + len > c.base + c.cap {
        return;
    }
    let off = (addr - c.base) as u32;
    let len = len as u32;
    let line = format!("T{} {}#{} zeroed arena+{}..+{}", me, c.op[me].kind, c.op[me].events, off, len);
    c.ring_push(line);
    let mut hit: Option<LiveRange> = None;
    for l in c.live.iter() {
        if l.cap > 0 && off < l.off + l.cap && l.off < off + len {
            hit = Some(l.clone());
            break;
        }
    }
    if let Some(l) = hit {
        let msg = format!("T{} zeroed [{},+{}) which intersects live range #{} [{},+{}) owned by T{}", me, off, len, l.hid, l.off, l.cap, l.owner);
        c.viol(&["C02"], "zeroed-live-range".to_string(), msg);
    }
    hb_check_range(&mut c, me, off, len, "zeroing");
}

/// C12: every byte of the range was released (if at all) by a thread whose release happens-before now.
pub fn hb_check_range(c: &mut Core, me: usize, off: u32, len: u32, what: &str) {
    if len == 0 {
        return;
    }
    c.handover_checks += 1;
    // a range that sticks out of the arena is somebody else's violation (C02/C04: handle outside the data area)
    let end = (off as u64 + len as u64).min(c.released_by.len() as u64) as u32;
    for b in off.min(end)..end {
        let (t1, ep) = c.released_by[b as usize];
        if t1 == 0 {
            continue;
        }
        let u = t1 as usize - 1;
        if u != me && c.vc[me].0[u] < ep {
            let msg = format!("{} of arena+{} by T{}: the byte was released by T{} at its epoch {} but T{} has only synchronised with epoch {} of T{} (no happens-before edge through the arena's atomics)", what, b, me, u, ep, me, c.vc[me].0[u], u);
            c.viol(&["C12"], format!("missing-happens-before:{}", what), msg);
            return;
        }
    }
}

pub fn ring_cap() -> usize {
    static CAP: std::sync::OnceLock<usize> = std::sync::OnceLock::new();
    *CAP.get_or_init(|| std::env::var("VH_RING").ok().and_then(|s| s.parse().ok()).unwrap_or(64))
}

pub fn install_hooks() {
    vhk::install(Some(hook_before), Some(hook_after), Some(hook_zeroed));
}

pub fn with_monitor<R>(f: impl FnOnce() -> R) -> R {
    IN_MONITOR.with(|m| m.set(true));
    let r = f();
    IN_MONITOR.with(|m| m.set(false));
    r
}

pub fn base_of(a: &sync::Arena) -> usize {
    a.raw_ptr() as usize
}

pub fn to_json_windows(c: &Core) -> J {
    let mut v: Vec<(&String, &u64)> = c.windows.iter().collect();
    v.sort();
    J::Obj(v.into_iter().map(|(k, n)| (k.clone(), J::Int(*n as i128))).collect())
}

include!("sched_run.rs");
