//! C16 (static part): layout contract swept over reserved 0..=4096 x unify x backend x flavour,
//! and construction success/failure swept over every capacity 0..=prefix+2.

use crate::arena::*;
use crate::out::Out;
use crate::util::json::J;
use crate::util::rng::mix;
use crate::Args;
#[allow(unused_imports)]
use rarena_allocator::{sync, unsync, Allocator, Buffer, Freelist, Options};

fn one<A: VArena>(out: &mut Out, reserved: u32, unify: bool, backend: Backend, cap_sweep: bool) {
    let cfg0 = Cfg { flavour: A::FLAVOUR, backend, freelist: FL::Optimistic, unify, reserved, min_seg: 20, max_align: 8, cap: 0, retries: 5, magic: 0, file_offset: 0, path: None };
    let prefix = cfg0.prefix();
    let o = Options::new().with_reserved(reserved).with_unify(unify).with_freelist(Freelist::Optimistic);
    let from_opts = if cfg0.effective_unify() { o.data_offset_unify::<A>() } else { o.data_offset::<A>() };
    out.inc("c16_static_cases");
    let detail = |msg: String| crate::jobj!("reserved" => reserved, "unify" => unify, "backend" => format!("{:?}", backend), "flavour" => format!("{:?}", A::FLAVOUR), "message" => msg);
    if from_opts as u32 != prefix {
        out.viol("C16", "options-data-offset", detail(format!("Options::data_offset{} = {} but the layout formula gives {}", if cfg0.effective_unify() { "_unify" } else { "" }, from_opts, prefix)));
        return;
    }
    let caps: Vec<u32> = if cap_sweep { (0..=prefix + 2).collect() } else { vec![prefix.saturating_sub(1), prefix, prefix + 1, prefix + 64] };
    for cap in caps {
        let mut cfg = cfg0.clone();
        cfg.cap = cap;
        if backend == Backend::File {
            cfg.path = Some(format!("{}/layout-{}.arena", tmp_dir(), reserved));
        }
        if (backend != Backend::Vec) && cap == 0 {
            continue; // a zero-length mapping is refused by the OS before the arena sees it
        }
        out.inc("c16_construction_cases");
        let r = std::panic::catch_unwind(std::panic::AssertUnwindSafe(|| create::<A>(&cfg)));
        let r = match r {
            Ok(r) => r,
            Err(_) => {
                let (loc, msg) = crate::seq::LAST_PANIC.with(|p| p.borrow().clone());
                out.viol("C16", "construction-panicked", detail(format!("capacity {}: panic at {}: {}", cap, loc, msg)));
                continue;
            }
        };
        match r {
            Ok(a) => {
                if cap < prefix {
                    out.viol("C16", "construction-accepted-too-small-capacity", detail(format!("capacity {} cannot hold the prefix of {} bytes but construction succeeded (data_offset() {} capacity() {})", cap, prefix, a.data_offset(), a.capacity())));
                } else {
                    if a.data_offset() as u32 != prefix || a.allocated() as u32 != prefix || a.capacity() as u32 != cap || a.reserved_slice().len() as u32 != reserved || a.remaining() as u32 != cap - prefix {
                        out.viol("C16", "layout-accessors", detail(format!("capacity {}: data_offset()={} allocated()={} capacity()={} reserved_slice().len()={} remaining()={} (prefix {})", cap, a.data_offset(), a.allocated(), a.capacity(), a.reserved_slice().len(), a.remaining(), prefix)));
                    }
                    // first allocation at the first suitably aligned offset at or after data_offset
                    if cap >= prefix + 24 {
                        if let Ok(h) = unsafe { a.alloc::<A8<8>>() } {
                            let want = (prefix + 7) & !7;
                            if Buffer::offset(&h) as u32 != want {
                                out.viol("C16", "first-allocation-misplaced", detail(format!("first alloc::<u64-like>() at {} (expected {})", Buffer::offset(&h), want)));
                            }
                            out.inc("c16_first_allocation_checks");
                        }
                    }
                }
                drop(a);
            }
            Err(e) => {
                if cap >= prefix {
                    out.viol("C16", "construction-refused-sufficient-capacity", detail(format!("capacity {} holds the prefix of {} bytes but construction failed: {}", cap, prefix, e)));
                } else {
                    let ok_kind = match backend {
                        Backend::Vec => e.contains("InsufficientSpace"),
                        _ => e.contains("InvalidInput"),
                    };
                    if !ok_kind {
                        out.viol("C16", "construction-wrong-error", detail(format!("capacity {} (< prefix {}): error {}", cap, prefix, e)));
                    }
                    out.inc("c16_construction_refusals");
                }
            }
        }
        if let Some(p) = cfg.path {
            let _ = std::fs::remove_file(p);
        }
    }
    out.hash(mix(mix(reserved as u64, unify as u64), mix(backend as u64, A::FLAVOUR as u64)));
}

/// Opening an existing (valid, empty) arena file is construction too: with a capacity option that cannot
/// hold the prefix every open variant must refuse, with one that can it must succeed and report the layout.
fn reopen_caps<A: VArena>(out: &mut Out, reserved: u32) {
    let mut cfg = Cfg { flavour: A::FLAVOUR, backend: Backend::File, freelist: FL::Optimistic, unify: true, reserved, min_seg: 20, max_align: 8, cap: 0, retries: 5, magic: 0, file_offset: 0, path: None };
    let prefix = cfg.prefix();
    cfg.cap = prefix + 64;
    cfg.path = Some(format!("{}/layout-reopen-{}.arena", tmp_dir(), reserved));
    match create::<A>(&cfg) {
        Ok(a) => drop(a),
        Err(_) => return,
    }
    let before = std::fs::read(cfg.path.as_ref().unwrap()).unwrap_or_default();
    let detail = |msg: String| crate::jobj!("reserved" => reserved, "backend" => "File (reopen)", "flavour" => format!("{:?}", A::FLAVOUR), "message" => msg);
    for mode in [OpenMode::Map, OpenMode::MapCopyRo, OpenMode::MapMut, OpenMode::MapCopy] {
        for cap in 1..=prefix + 2 {
            out.inc("c16_reopen_capacity_cases");
            let r = std::panic::catch_unwind(std::panic::AssertUnwindSafe(|| reopen::<A>(&cfg, mode, Some(cap), false)));
            let r = match r {
                Ok(r) => r,
                Err(_) => {
                    let (loc, msg) = crate::seq::LAST_PANIC.with(|p| p.borrow().clone());
                    out.viol("C16", "construction-panicked", detail(format!("{:?} of an existing file with capacity {}: panic at {}: {}", mode, cap, loc, msg)));
                    continue;
                }
            };
            match r {
                Ok(a) => {
                    if cap < prefix {
                        out.viol("C16", "construction-accepted-too-small-capacity", detail(format!("{:?} of an existing file with capacity {} (prefix {}) succeeded: data_offset() {} capacity() {} remaining() {}", mode, cap, prefix, a.data_offset(), a.capacity(), a.remaining())));
                    } else if a.data_offset() as u32 != prefix || a.allocated() as u32 != prefix || (a.capacity() as u32) < prefix || a.remaining() != a.capacity() - a.allocated() || a.reserved_slice().len() as u32 != reserved {
                        out.viol("C16", "layout-accessors", detail(format!("{:?} with capacity {}: data_offset()={} allocated()={} capacity()={} remaining()={} reserved_slice().len()={} (prefix {})", mode, cap, a.data_offset(), a.allocated(), a.capacity(), a.remaining(), a.reserved_slice().len(), prefix)));
                    }
                    drop(a);
                }
                Err(e) => {
                    if cap >= prefix {
                        out.viol("C16", "construction-refused-sufficient-capacity", detail(format!("{:?} of an existing file with capacity {} (prefix {}) failed: {}", mode, cap, prefix, e)));
                    } else {
                        if e.kind() != std::io::ErrorKind::InvalidInput {
                            out.viol("C16", "construction-wrong-error", detail(format!("{:?} with capacity {} (< prefix {}): error {:?} {}", mode, cap, prefix, e.kind(), e)));
                        }
                        out.inc("c16_reopen_capacity_refusals");
                    }
                }
            }
        }
    }
    let after = std::fs::read(cfg.path.as_ref().unwrap()).unwrap_or_default();
    if after.len() < before.len() || after[..before.len()] != before[..] {
        out.viol("C16", "reopen-capacity-sweep-altered-file", detail("the opens of the capacity sweep (refused ones and accepted ones of an empty arena) changed bytes of the file".into()));
    }
    let _ = std::fs::remove_file(cfg.path.as_ref().unwrap());
}

pub fn child_main(args: &Args) -> i32 {
    let mut out = Out::new();
    crate::seq::install_panic_capture();
    let from = args.u64("from", 0) as u32;
    let to = args.u64("to", 4096) as u32;
    let step = args.u64("step", 1) as u32;
    let mut r = from;
    while r <= to {
        out.at(&format!("layout --from {} --to {}", r, r));
        // full capacity sweep for small reserved values and a sample of the others
        let sweep = r <= 72 || r % 257 == 0 || r == 4096;
        for unify in [false, true] {
            for backend in [Backend::Vec, Backend::Anon, Backend::File] {
                if backend != Backend::Vec && r > 300 && r % 64 != 0 && r % 64 != 1 && r % 64 != 63 {
                    continue;
                }
                one::<sync::Arena>(&mut out, r, unify, backend, sweep);
                one::<unsync::Arena>(&mut out, r, unify, backend, sweep);
            }
        }
        if r <= 72 || r % 257 == 0 || r == 4096 {
            reopen_caps::<sync::Arena>(&mut out, r);
            reopen_caps::<unsync::Arena>(&mut out, r);
        }
        r += step;
    }
    out.sample(J::Str(format!("layout --from {} --to {} --step {}", from, to, step)));
    out.emit();
    0
}
