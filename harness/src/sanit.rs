//! Classification of sanitizer / Miri reports (stderr text) into a stable signature.

/// Returns e.g. `tsan:data-race:sync.rs:alloc_slow_path_optimistic` — first in-repo frames, line numbers stripped.
pub fn classify(stderr: &str) -> String {
    let kind = if stderr.contains("ThreadSanitizer: data race") {
        "tsan:data-race"
    } else if stderr.contains("ThreadSanitizer") {
        "tsan:other"
    } else if stderr.contains("heap-buffer-overflow") {
        "asan:heap-buffer-overflow"
    } else if stderr.contains("heap-use-after-free") {
        "asan:use-after-free"
    } else if stderr.contains("AddressSanitizer") {
        "asan:other"
    } else if stderr.contains("LeakSanitizer") {
        "lsan:leak"
    } else if stderr.contains("Undefined Behavior") {
        if stderr.contains("Data race detected") {
            "miri:data-race"
        } else {
            "miri:ub"
        }
    } else {
        "unknown"
    };
    // first frames mentioning the repo
    let mut frames: Vec<String> = vec![];
    for l in stderr.lines() {
        if let Some(p) = l.find("rarena-allocator/src/") {
            let rest = &l[p + "rarena-allocator/src/".len()..];
            let file: String = rest.chars().take_while(|c| c.is_alphanumeric() || *c == '_' || *c == '.' || *c == '/').collect();
            // function name if present before " /"
            if !frames.contains(&file) {
                frames.push(file);
            }
            if frames.len() >= 2 {
                break;
            }
        }
    }
    // tool noise / harness-only reports are not attributable to the arena: the caller maps
    // "unknown…" to INCONCLUSIVE instead of a violation
    if stderr.contains("stack-use-after-scope") {
        return "unknown:asan-stack-use-after-scope (known false positive of scope instrumentation in optimised Rust)".to_string();
    }
    if kind == "miri:ub" && frames.is_empty() {
        return "unknown:miri-ub-in-harness-frames-only".to_string();
    }
    format!("{}:{}", kind, frames.join("+"))
}
