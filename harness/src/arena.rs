//! Arena abstraction over `sync::Arena` / `unsync::Arena`, configurations, constructors,
//! the type menu and type-erased handles.

use crate::util::json::J;
use crate::util::rng::Rng;
use rarena_allocator::verif_hooks::FreelistSnapshot;
use rarena_allocator::{sync, unsync, Allocator, Buffer, BytesMut, BytesRefMut, Error, Freelist, Options, Owned, RefMut};
use std::sync::atomic::{AtomicUsize, Ordering};

pub const SNAP_MAX: usize = 4096;

#[derive(Clone, Copy, Debug, PartialEq, Eq, Hash)]
pub enum Flavour {
    Sync,
    Unsync,
}

#[derive(Clone, Copy, Debug, PartialEq, Eq, Hash)]
pub enum Backend {
    Vec,
    Anon,
    File,
}

#[derive(Clone, Copy, Debug, PartialEq, Eq, Hash)]
pub enum FL {
    None,
    Optimistic,
    Pessimistic,
}

impl FL {
    pub fn to(self) -> Freelist {
        match self {
            FL::None => Freelist::None,
            FL::Optimistic => Freelist::Optimistic,
            FL::Pessimistic => Freelist::Pessimistic,
        }
    }
    pub fn name(self) -> &'static str {
        match self {
            FL::None => "none",
            FL::Optimistic => "optimistic",
            FL::Pessimistic => "pessimistic",
        }
    }
}

#[derive(Clone, Debug)]
pub struct Cfg {
    pub flavour: Flavour,
    pub backend: Backend,
    pub freelist: FL,
    pub unify: bool,
    pub reserved: u32,
    pub min_seg: u32,
    pub max_align: usize,
    pub cap: u32,
    pub retries: u8,
    pub magic: u16,
    /// file offset (page multiple) for file mappings
    pub file_offset: u64,
    pub path: Option<String>,
}

impl Cfg {
    pub fn effective_unify(&self) -> bool {
        self.unify || self.backend == Backend::File
    }
    /// closed-form prefix size written from the README / property text
    pub fn prefix(&self) -> u32 {
        if self.effective_unify() {
            // align8(reserved) + 8 identification bytes + 24 bytes of header (sentinel + 3 x u32 + pad)
            ((self.reserved + 7) & !7) + 8 + 24
        } else {
            self.reserved + 1
        }
    }
    pub fn options(&self) -> Options {
        Options::new()
            .with_capacity(self.cap)
            .with_reserved(self.reserved)
            .with_minimum_segment_size(self.min_seg)
            .with_maximum_alignment(self.max_align)
            .with_maximum_retries(self.retries)
            .with_unify(self.unify)
            .with_magic_version(self.magic)
            .with_freelist(self.freelist.to())
    }
    pub fn to_json(&self) -> J {
        crate::jobj!(
            "flavour" => format!("{:?}", self.flavour),
            "backend" => format!("{:?}", self.backend),
            "freelist" => self.freelist.name(),
            "unify" => self.unify,
            "reserved" => self.reserved,
            "min_seg" => self.min_seg,
            "max_align" => self.max_align,
            "cap" => self.cap,
            "retries" => self.retries,
            "file_offset" => self.file_offset,
        )
    }
    pub fn axis_keys(&self) -> Vec<String> {
        vec![
            format!("flavour={:?}", self.flavour),
            format!("backend={:?}", self.backend),
            format!("freelist={}", self.freelist.name()),
            format!("unify={}", self.unify),
            format!("reserved={}", self.reserved),
            format!("min_seg={}", self.min_seg),
            format!("max_align={}", self.max_align),
            format!(
                "cap={}",
                match self.cap - self.prefix().min(self.cap) {
                    0..=64 => "prefix+0..64",
                    65..=512 => "65..512",
                    513..=4096 => "513..4096",
                    _ => "large",
                }
            ),
            format!("retries={}", self.retries),
            format!("file_offset={}", self.file_offset),
        ]
    }
}

pub const RESERVED_AXIS: [u32; 13] = [0, 1, 3, 5, 7, 8, 9, 15, 16, 63, 64, 255, 4096];
pub const MINSEG_AXIS: [u32; 6] = [1, 8, 20, 48, 200, 0];
pub const ALIGN_AXIS: [usize; 3] = [8, 16, 64];

/// Sample a configuration; `i` forces each axis value to appear (covering schedule).
pub fn sample_cfg(rng: &mut Rng, i: u64, allow_file: bool, allow_mmap: bool) -> Cfg {
    let flavour = if i % 2 == 0 { Flavour::Sync } else { Flavour::Unsync };
    let freelist = match (i / 2) % 3 {
        0 => FL::Optimistic,
        1 => FL::Pessimistic,
        _ => FL::None,
    };
    let backend = match (i / 6) % 3 {
        1 if allow_mmap => Backend::Anon,
        2 if allow_file => Backend::File,
        _ => Backend::Vec,
    };
    let unify = (i / 18) % 2 == 0;
    let reserved = if rng.chance(1, 2) {
        RESERVED_AXIS[((i / 3) % RESERVED_AXIS.len() as u64) as usize]
    } else {
        *rng.pick(&RESERVED_AXIS)
    };
    let min_seg = if rng.chance(1, 2) {
        MINSEG_AXIS[((i / 5) % MINSEG_AXIS.len() as u64) as usize]
    } else {
        *rng.pick(&MINSEG_AXIS)
    };
    let max_align = ALIGN_AXIS[((i / 7) % 3) as usize];
    let retries = if (i / 11) % 2 == 0 { 5 } else { 1 };
    let mut c = Cfg {
        flavour,
        backend,
        freelist,
        unify,
        reserved,
        min_seg,
        max_align,
        cap: 0,
        retries,
        magic: (rng.next() % 4) as u16,
        file_offset: 0,
        path: None,
    };
    if backend == Backend::File && rng.chance(1, 4) {
        c.file_offset = 4096 * rng.range(1, 2);
    }
    let prefix = c.prefix();
    let room = match rng.below(10) {
        0 => rng.range(0, 64) as u32,
        1..=5 => rng.range(128, 1024) as u32,
        6..=8 => rng.range(1024, 4096) as u32,
        _ => 65536,
    };
    c.cap = prefix + room;
    c
}

// ------------------------------------------------------------------------------------------
// type menu

pub static DROPS: AtomicUsize = AtomicUsize::new(0);

#[repr(C)]
pub struct Dropper {
    pub tag: u64,
    pub armed: u64,
}
impl Drop for Dropper {
    fn drop(&mut self) {
        if self.armed == 0xD0D0_CAFE {
            DROPS.fetch_add(1, Ordering::SeqCst);
        } else {
            // dropped a value that was never written by the harness
            DROPS.fetch_add(1_000_000, Ordering::SeqCst);
        }
    }
}

/// A zero-sized type with a destructor (a token / guard): no memory, but its value must still be dropped
/// exactly once.
pub struct ZDropper;
impl Drop for ZDropper {
    fn drop(&mut self) {
        DROPS.fetch_add(1, Ordering::SeqCst);
    }
}

#[derive(Clone, Copy)]
#[repr(C)]
pub struct A1<const N: usize>(pub [u8; N]);
#[derive(Clone, Copy)]
#[repr(C, align(2))]
pub struct A2<const N: usize>(pub [u8; N]);
#[derive(Clone, Copy)]
#[repr(C, align(4))]
pub struct A4<const N: usize>(pub [u8; N]);
#[derive(Clone, Copy)]
#[repr(C, align(8))]
pub struct A8<const N: usize>(pub [u8; N]);
#[derive(Clone, Copy)]
#[repr(C, align(16))]
pub struct A16<const N: usize>(pub [u8; N]);
/// over-aligned beyond 16: only addressable correctly when `maximum_alignment` is at least 64
#[derive(Clone, Copy)]
#[repr(C, align(64))]
pub struct A64<const N: usize>(pub [u8; N]);
#[derive(Clone, Copy)]
#[repr(C, align(8))]
pub struct Z8;

#[derive(Clone, Copy, Debug)]
pub struct TyInfo {
    pub size: u32,
    pub align: u32,
    pub needs_drop: bool,
    pub name: &'static str,
}

/// Invokes `$m!(index, Type)` for every menu entry.
#[macro_export]
macro_rules! for_each_type {
    ($m:ident) => {
        $m!(0, $crate::arena::A1<1>);
        $m!(1, $crate::arena::A1<3>);
        $m!(2, $crate::arena::A1<7>);
        $m!(3, $crate::arena::A1<64>);
        $m!(4, $crate::arena::A2<2>);
        $m!(5, $crate::arena::A2<6>);
        $m!(6, $crate::arena::A4<4>);
        $m!(7, $crate::arena::A4<12>);
        $m!(8, $crate::arena::A8<8>);
        $m!(9, $crate::arena::A8<16>);
        $m!(10, $crate::arena::A8<40>);
        $m!(11, $crate::arena::A16<16>);
        $m!(12, $crate::arena::A16<48>);
        $m!(13, ());
        $m!(14, $crate::arena::Z8);
        $m!(15, $crate::arena::Dropper);
        $m!(16, $crate::arena::ZDropper);
        $m!(17, $crate::arena::A64<64>);
    };
}

pub const N_TYPES: usize = 18;
pub const TY_DROPPER: u8 = 15;

pub fn ty_info(i: u8) -> TyInfo {
    macro_rules! arm {
        ($idx:expr, $t:ty) => {
            if i == $idx {
                return TyInfo {
                    size: std::mem::size_of::<$t>() as u32,
                    align: std::mem::align_of::<$t>() as u32,
                    needs_drop: std::mem::needs_drop::<$t>(),
                    name: stringify!($t),
                };
            }
        };
    }
    for_each_type!(arm);
    panic!("bad type index {}", i)
}

// ------------------------------------------------------------------------------------------
// erased handles

#[derive(Clone, Copy, Debug, PartialEq, Eq)]
pub enum HKind {
    Bytes,
    Aligned(u8),
    Typed(u8),
}

pub trait Handle {
    fn offset(&self) -> usize;
    fn capacity(&self) -> usize;
    fn buffer_offset(&self) -> usize;
    fn buffer_capacity(&self) -> usize;
    fn detach(&mut self);
    /// address of the accessible range as reported by `as_mut_ptr` (0 when not applicable)
    fn addr(&mut self) -> usize;
    /// overwrite the accessible range (or its first `data.len()` bytes) through the handle
    fn write(&mut self, data: &[u8], via_safe_api: bool);
}

macro_rules! buf_common {
    () => {
        fn offset(&self) -> usize {
            Buffer::offset(self)
        }
        fn capacity(&self) -> usize {
            Buffer::capacity(self)
        }
        fn buffer_offset(&self) -> usize {
            Buffer::buffer_offset(self)
        }
        fn buffer_capacity(&self) -> usize {
            Buffer::buffer_capacity(self)
        }
        fn detach(&mut self) {
            unsafe { Buffer::detach(self) }
        }
    };
}

impl<A: Allocator> Handle for BytesRefMut<'static, A> {
    buf_common!();
    fn addr(&mut self) -> usize {
        if Buffer::capacity(self) == 0 {
            return 0;
        }
        self.as_mut_ptr() as usize
    }
    fn write(&mut self, data: &[u8], via_safe_api: bool) {
        if data.is_empty() || Buffer::capacity(self) == 0 {
            return;
        }
        if via_safe_api {
            self.set_len(0);
            self.put_slice(data).expect("put_slice within capacity");
        } else {
            unsafe { std::ptr::copy_nonoverlapping(data.as_ptr(), self.as_mut_ptr(), data.len()) }
        }
    }
}

impl<A: Allocator> Handle for BytesMut<A> {
    buf_common!();
    fn addr(&mut self) -> usize {
        if Buffer::capacity(self) == 0 {
            return 0;
        }
        self.as_mut_ptr() as usize
    }
    fn write(&mut self, data: &[u8], via_safe_api: bool) {
        if data.is_empty() || Buffer::capacity(self) == 0 {
            return;
        }
        if via_safe_api {
            self.set_len(0);
            self.put_slice(data).expect("put_slice within capacity");
        } else {
            unsafe { std::ptr::copy_nonoverlapping(data.as_ptr(), self.as_mut_ptr(), data.len()) }
        }
    }
}

/// How a typed handle's value is initialised by the harness.
pub trait MenuType: Sized {
    const DROPPER: bool = false;
    fn make(tag: u64) -> Option<Self> {
        let _ = tag;
        None
    }
}
impl<const N: usize> MenuType for A1<N> {}
impl<const N: usize> MenuType for A2<N> {}
impl<const N: usize> MenuType for A4<N> {}
impl<const N: usize> MenuType for A8<N> {}
impl<const N: usize> MenuType for A16<N> {}
impl<const N: usize> MenuType for A64<N> {}
impl MenuType for () {}
impl MenuType for Z8 {}
impl MenuType for ZDropper {
    const DROPPER: bool = true;
    fn make(_tag: u64) -> Option<Self> {
        Some(ZDropper)
    }
}
impl MenuType for Dropper {
    const DROPPER: bool = true;
    fn make(tag: u64) -> Option<Self> {
        Some(Dropper { tag, armed: 0xD0D0_CAFE })
    }
}

impl<T: MenuType, A: Allocator> Handle for RefMut<'static, T, A> {
    buf_common!();
    fn addr(&mut self) -> usize {
        if std::mem::size_of::<T>() == 0 || T::DROPPER {
            return 0;
        }
        self.as_mut_ptr().as_ptr() as usize
    }
    fn write(&mut self, data: &[u8], _via: bool) {
        if std::mem::size_of::<T>() == 0 {
            return;
        }
        if T::DROPPER {
            return; // value lives in the handle; initialised once at allocation
        }
        let n = data.len().min(std::mem::size_of::<T>());
        unsafe { std::ptr::copy_nonoverlapping(data.as_ptr(), self.as_mut_ptr().as_ptr() as *mut u8, n) }
    }
}

impl<T: MenuType, A: Allocator> Handle for Owned<T, A> {
    buf_common!();
    fn addr(&mut self) -> usize {
        if std::mem::size_of::<T>() == 0 || T::DROPPER {
            return 0;
        }
        self.as_mut_ptr().as_ptr() as usize
    }
    fn write(&mut self, data: &[u8], _via: bool) {
        if std::mem::size_of::<T>() == 0 || T::DROPPER {
            return;
        }
        let n = data.len().min(std::mem::size_of::<T>());
        unsafe { std::ptr::copy_nonoverlapping(data.as_ptr(), self.as_mut_ptr().as_ptr() as *mut u8, n) }
    }
}

// ------------------------------------------------------------------------------------------
// arena trait

pub trait VArena: Allocator + 'static {
    const FLAVOUR: Flavour;
    fn snap(&self) -> FreelistSnapshot;
    /// `None` when the flavour has no truncate.
    fn truncate_(&mut self, n: usize) -> Option<std::io::Result<()>>;
}

impl VArena for sync::Arena {
    const FLAVOUR: Flavour = Flavour::Sync;
    fn snap(&self) -> FreelistSnapshot {
        self.__verif_freelist(SNAP_MAX)
    }
    fn truncate_(&mut self, _n: usize) -> Option<std::io::Result<()>> {
        None
    }
}

impl VArena for unsync::Arena {
    const FLAVOUR: Flavour = Flavour::Unsync;
    fn snap(&self) -> FreelistSnapshot {
        self.__verif_freelist(SNAP_MAX)
    }
    fn truncate_(&mut self, n: usize) -> Option<std::io::Result<()>> {
        Some(self.truncate(n))
    }
}

#[derive(Clone, Copy, Debug, PartialEq, Eq)]
pub enum OpenMode {
    MapMut,
    MapCopy,
    Map,
    MapCopyRo,
}

pub fn create<A: VArena>(cfg: &Cfg) -> Result<A, String> {
    match cfg.backend {
        Backend::Vec => cfg.options().alloc::<A>().map_err(|e| format!("{:?}", e)),
        Backend::Anon => cfg.options().map_anon::<A>().map_err(|e| format!("io:{:?}:{}", e.kind(), e)),
        Backend::File => {
            let p = cfg.path.as_ref().expect("file cfg needs a path");
            let _ = std::fs::remove_file(p);
            let mut o = cfg
                .options()
                .with_create_new(true)
                .with_read(true)
                .with_write(true);
            if cfg.file_offset > 0 {
                o = o.with_offset(cfg.file_offset);
            }
            if use_path_builder() {
                let pb = std::path::PathBuf::from(p);
                unsafe { o.map_mut_with_path_builder::<A, _, std::io::Error>(move || Ok(pb)) }.map_err(|e| e.either(|l| l, |r| r)).map_err(|e| format!("io:{:?}:{}", e.kind(), e))
            } else {
                unsafe { o.map_mut::<A, _>(p) }.map_err(|e| format!("io:{:?}:{}", e.kind(), e))
            }
        }
    }
}

thread_local! {
    static OPEN_NO: std::cell::Cell<u64> = const { std::cell::Cell::new(0) };
}

/// Every second file open of this process goes through the `*_with_path_builder` form of the constructor.
pub fn use_path_builder() -> bool {
    OPEN_NO.with(|c| {
        let v = c.get();
        c.set(v + 1);
        v % 2 == 1
    })
}

/// Reopen an existing arena file.
pub fn reopen<A: VArena>(cfg: &Cfg, mode: OpenMode, cap: Option<u32>, create_flag: bool) -> std::io::Result<A> {
    let p = cfg.path.as_ref().expect("file cfg needs a path");
    let mut o = Options::new()
        .with_reserved(cfg.reserved)
        .with_minimum_segment_size(cfg.min_seg)
        .with_maximum_alignment(cfg.max_align)
        .with_maximum_retries(cfg.retries)
        .with_magic_version(cfg.magic)
        .with_freelist(cfg.freelist.to())
        .with_read(true);
    if let Some(c) = cap {
        o = o.with_capacity(c);
    }
    if cfg.file_offset > 0 {
        o = o.with_offset(cfg.file_offset);
    }
    let pb = if use_path_builder() { Some(std::path::PathBuf::from(p)) } else { None };
    fn flat<T>(r: Result<T, rarena_allocator::either::Either<std::io::Error, std::io::Error>>) -> std::io::Result<T> {
        r.map_err(|e| e.either(|l| l, |r| r))
    }
    match mode {
        OpenMode::MapMut => {
            o = o.with_write(true);
            if create_flag {
                o = o.with_create(true);
            }
            match pb {
                Some(pb) => flat(unsafe { o.map_mut_with_path_builder::<A, _, std::io::Error>(move || Ok(pb)) }),
                None => unsafe { o.map_mut::<A, _>(p) },
            }
        }
        OpenMode::MapCopy => {
            o = o.with_write(true);
            match pb {
                Some(pb) => flat(unsafe { o.map_copy_with_path_builder::<A, _, std::io::Error>(move || Ok(pb)) }),
                None => unsafe { o.map_copy::<A, _>(p) },
            }
        }
        OpenMode::Map | OpenMode::MapCopyRo if create_flag => {
            // read-only opens are documented to ignore the creation / write flags of the options they are given
            // (e.g. the very options the file was created with)
            o = o.with_create(true).with_create_new(true).with_write(true);
            match (mode, pb) {
                (OpenMode::Map, Some(pb)) => flat(unsafe { o.map_with_path_builder::<A, _, std::io::Error>(move || Ok(pb)) }),
                (OpenMode::Map, None) => unsafe { o.map::<A, _>(p) },
                (_, Some(pb)) => flat(unsafe { o.map_copy_read_only_with_path_builder::<A, _, std::io::Error>(move || Ok(pb)) }),
                (_, None) => unsafe { o.map_copy_read_only::<A, _>(p) },
            }
        }
        OpenMode::Map => match pb {
            Some(pb) => flat(unsafe { o.map_with_path_builder::<A, _, std::io::Error>(move || Ok(pb)) }),
            None => unsafe { o.map::<A, _>(p) },
        },
        OpenMode::MapCopyRo => match pb {
            Some(pb) => flat(unsafe { o.map_copy_read_only_with_path_builder::<A, _, std::io::Error>(move || Ok(pb)) }),
            None => unsafe { o.map_copy_read_only::<A, _>(p) },
        },
    }
}

#[derive(Clone, Copy, Debug, PartialEq, Eq)]
pub enum ErrKind {
    Insufficient,
    ReadOnly,
    Other,
}

pub fn err_kind(e: &Error) -> ErrKind {
    match e {
        Error::InsufficientSpace { .. } => ErrKind::Insufficient,
        Error::ReadOnly => ErrKind::ReadOnly,
        _ => ErrKind::Other,
    }
}

pub fn tmp_dir() -> String {
    if let Ok(d) = std::env::var("VH_TMP_OVERRIDE") {
        return d;
    }
    let d = format!("/verif/target/tmp/{}", std::process::id());
    let _ = std::fs::create_dir_all(&d);
    d
}

pub fn cleanup_tmp() {
    let d = format!("/verif/target/tmp/{}", std::process::id());
    let _ = std::fs::remove_dir_all(d);
}
