//! E-SEQ: single-threaded history fuzzer with shadow map, reference model and differential
//! runners.  One child process executes a slice of history indices.

use crate::arena::*;
use crate::model::*;
use crate::out::Out;
use crate::runner::*;
use crate::util::json::J;
use crate::util::rng::{mix, Rng};
use crate::Args;

#[derive(Clone, Copy, Debug, PartialEq, Eq)]
pub enum Rel {
    Primary,
    /// same history on the other flavour (C11)
    OtherFlavour,
    /// same history on another backend, unified layout (C16)
    OtherBackend,
    /// fresh arena started when the primary was cleared (C17)
    FreshAfterClear,
}

#[derive(Clone, Debug)]
pub struct Entry {
    pub id: u64,
    pub kind: HKind,
    pub off: u32,
    pub cap: u32,
    pub boff: u32,
    pub bcap: u32,
    pub has_handle: bool,
    pub owned: bool,
    pub via: Option<usize>,
    pub expected: Vec<u8>,
    pub dropper: bool,
    /// destructor runs (per arena) already observed when the value was written (zero-sized values are dropped by `write`)
    pub early_drops: usize,
    pub gen: u32,
    pub recycled: bool,
    pub holds_ref: bool,
}

#[derive(Default, Clone, Debug)]
pub struct Flags {
    pub recycled_with_2_live: bool,
    pub typed_recycled: bool,
    pub typed_fresh_odd: bool,
    pub zero_nonvacuous_reuse: bool,
    pub slow_with_2_nodes: bool,
    pub slow_any: bool,
    pub owned_and_clone: bool,
    pub ooo_arena_drop: bool,
    pub rewind_or_clear_with_list: bool,
    pub truncate_nontrivial: bool,
    pub discard_nontrivial: bool,
    pub reopen_nontrivial: bool,
    pub split: bool,
    pub multi: bool,
}

#[derive(Clone, Debug)]
pub struct Knobs {
    pub prop: String,
    pub min_steps: u64,
    pub max_steps: u64,
    pub want_other_flavour: bool,
    pub want_other_backend: bool,
    pub allow_file: bool,
    pub allow_mmap: bool,
    pub w_reopen: u64,
    pub w_truncate: u64,
    pub w_clear: u64,
    pub w_rewind: u64,
    pub w_discard: u64,
    pub w_clone: u64,
    pub w_typed: u64,
    pub w_owned: u64,
    pub force_file: bool,
    pub force_unsync: bool,
    pub fill_prob: u64, // percent of releases preceded by fill
}

impl Knobs {
    pub fn for_prop(p: &str) -> Knobs {
        let mut k = Knobs {
            prop: p.to_string(),
            min_steps: 50,
            max_steps: 400,
            want_other_flavour: false,
            want_other_backend: false,
            allow_file: true,
            allow_mmap: true,
            w_reopen: 1,
            w_truncate: 1,
            w_clear: 1,
            w_rewind: 2,
            w_discard: 1,
            w_clone: 2,
            w_typed: 30,
            w_owned: 25,
            force_file: false,
            force_unsync: false,
            fill_prob: 90,
        };
        match p {
            "C03" => k.w_typed = 70,
            "C05" => {
                k.force_file = true;
                k.w_reopen = 12;
                k.w_clear = 0;
            }
            "C08" => {
                k.w_typed = 10;
                k.w_rewind = 6;
                k.w_discard = 3;
                k.w_reopen = 3;
            }
            "C10" => {
                k.w_discard = 3;
            }
            "C11" => k.want_other_flavour = true,
            "C13" => {
                k.w_clone = 12;
                k.w_owned = 50;
            }
            "C16" => k.want_other_backend = true,
            "C17" => {
                k.w_clear = 6;
                k.w_rewind = 10;
            }
            "C18" => {
                k.force_unsync = true;
                k.w_truncate = 12;
            }
            "C20" => {
                k.w_discard = 8;
            }
            _ => {}
        }
        if cfg!(miri) {
            k.allow_file = false;
            k.allow_mmap = false;
            k.force_file = false;
            k.w_reopen = 0;
            k.max_steps = 60;
            k.min_steps = 20;
        }
        k
    }
}

pub struct Hist<'o> {
    pub cfg: Cfg,
    pub knobs: Knobs,
    pub rng: Rng,
    pub runners: Vec<Box<dyn Run>>,
    pub rels: Vec<Rel>,
    pub model: Model,
    pub live: Vec<Entry>,
    pub forever: Vec<(u32, u32)>,
    pub reserved_pat: Vec<u8>,
    pub next_id: u64,
    pub steps: u64,
    pub hash: u64,
    pub flags: Flags,
    pub ops_log: Vec<String>,
    pub out: &'o mut Out,
    pub failed: bool,
    pub seed: u64,
    pub index: u64,
    pub arena_vals: Vec<bool>,
    pub prev_mem: Vec<u8>,
    pub lowering: &'static str,
    pub after_reopen: bool,
    pub after_discard: bool,
    pub watch_slots: Vec<Option<usize>>,
    pub truncated: bool,
    pub truncated_since_clear: bool,
    pub resync: bool,
    pub foreign_viols: u32,
    pub tmp_recycled: bool,
    pub unobserved_releases: u32,
    pub closed: bool,
    pub pending_early_drops: (bool, usize),
    pub stay_read_only: bool,
}

thread_local! {
    /// atomic accesses the arena performed since the current operation of the history was started
    pub static STEP_ACCESSES: std::cell::Cell<u64> = const { std::cell::Cell::new(0) };
    pub static STEP_WHAT: std::cell::RefCell<String> = const { std::cell::RefCell::new(String::new()) };
    /// (xorshift state, percentage) of injected spurious compare_exchange_weak failures for the current history
    pub static SPURIOUS: std::cell::Cell<(u64, u32)> = const { std::cell::Cell::new((0, 0)) };
    pub static LAST_SPURIOUS: std::cell::Cell<bool> = const { std::cell::Cell::new(false) };
    pub static SPURIOUS_INJECTED: std::cell::Cell<u64> = const { std::cell::Cell::new(0) };
}

/// One operation of a single-threaded history may perform this many atomic accesses (arenas are at most
/// 64 KiB, i.e. at most 4096 segments; a legal traversal reads two words per segment and nobody else is
/// there to make a CAS fail).  A logical budget, not a clock.
pub const SEQ_STEP_BUDGET: u64 = 3_000_000;

/// `before` callback of the single-threaded engine: counts the arena's atomic accesses per operation.
/// An operation that exceeds the budget polls words that nobody can change any more: it does not terminate.
pub fn seq_hook_before(_p: &rarena_allocator::verif_hooks::Pending) -> rarena_allocator::verif_hooks::Directive {
    use rarena_allocator::verif_hooks::Directive;
    if std::thread::panicking() {
        return Directive::Proceed;
    }
    let n = STEP_ACCESSES.with(|c| {
        let v = c.get() + 1;
        c.set(v);
        v
    });
    // spurious failures of compare_exchange_weak: legal at any time (x86 never produces them); correct code
    // retries, so the history must come out exactly as without them
    if _p.access == rarena_allocator::verif_hooks::Access::CasWeak {
        let fail = SPURIOUS.with(|c| {
            let (mut x, pct) = c.get();
            if pct == 0 {
                return false;
            }
            x ^= x << 13;
            x ^= x >> 7;
            x ^= x << 17;
            c.set((x, pct));
            // never twice in a row on the same thread, so that bounded retry loops (maximum_retries) still get through
            let again = LAST_SPURIOUS.with(|l| l.replace(false));
            !again && (x % 100) < pct as u64
        });
        if fail {
            LAST_SPURIOUS.with(|l| l.set(true));
            SPURIOUS_INJECTED.with(|c| c.set(c.get() + 1));
            return Directive::SpuriousFail;
        }
    }
    if n > SEQ_STEP_BUDGET {
        let what = STEP_WHAT.with(|w| w.borrow().clone());
        let mut it = what.splitn(2, '|');
        let replay = it.next().unwrap_or("").to_string();
        let op = it.next().unwrap_or("").to_string();
        let prop = replay.split_whitespace().nth(2).unwrap_or("C07").to_string();
        let d = crate::jobj!("message" => format!("a single-threaded history: the arena performed more than {} atomic accesses inside one operation ({}) — the call polls memory that nobody else can change and never returns", SEQ_STEP_BUDGET, op), "operation" => op, "replay_args" => replay);
        use std::io::Write;
        let o = std::io::stdout();
        let mut l = o.lock();
        let _ = writeln!(l, "VIOL C07 single-threaded-call-does-not-terminate {}", d.dump());
        if prop != "C07" {
            // no post-condition the property under check states about this call can hold if the call never returns
            let _ = writeln!(l, "VIOL {} single-threaded-call-does-not-terminate {}", prop, d.dump());
        }
        let _ = writeln!(l, "CNT seq_step_budget_exceeded 1");
        let _ = writeln!(l, "DONE");
        let _ = l.flush();
        std::process::exit(0);
    }
    Directive::Proceed
}

pub fn pattern(id: u64, gen: u32, n: usize) -> Vec<u8> {
    let mut v = Vec::with_capacity(n);
    let mut x = mix(id.wrapping_mul(0x9E37_79B9), gen as u64);
    for i in 0..n {
        if i % 8 == 0 {
            x = mix(x, i as u64);
        }
        let b = (x >> ((i % 8) * 8)) as u8;
        v.push(if b == 0 { 0xA5 } else { b });
    }
    v
}

fn ranges_overlap(a: (u32, u32), b: (u32, u32)) -> bool {
    // (start, len)
    a.1 > 0 && b.1 > 0 && (a.0 as u64) < b.0 as u64 + b.1 as u64 && (b.0 as u64) < a.0 as u64 + a.1 as u64
}

/// Memory equality that ignores the 4 padding bytes at the end of the in-memory header
/// (unified layout): padding of a struct written with `ptr::write` is unspecified.
pub fn masked_eq(a: &[u8], b: &[u8], cfg: &Cfg) -> bool {
    if a.len() != b.len() {
        return false;
    }
    if !cfg.effective_unify() {
        if cfg!(miri) {
            // the unused byte between the reserved prefix and the data area is never written
            let r = cfg.reserved as usize;
            return a[..r] == b[..r] && a[r + 1..] == b[r + 1..];
        }
        return a == b;
    }
    let h = (((cfg.reserved + 7) & !7) + 8) as usize;
    let (p0, p1) = (h + 20, h + 24);
    if a.len() < p1 {
        return a == b;
    }
    a[..p0] == b[..p0] && a[p1..] == b[p1..]
}

fn obs_eq(a: &Obs, b: &Obs) -> bool {
    match (a, b) {
        (Obs::Alloc(Ok(x)), Obs::Alloc(Ok(y))) => {
            x.off == y.off && x.cap == y.cap && x.boff == y.boff && x.bcap == y.bcap && x.addr_rel == y.addr_rel
        }
        _ => a == b,
    }
}

impl<'o> Hist<'o> {
    pub fn log(&mut self, s: String) {
        self.hash = s.bytes().fold(self.hash, |h, b| mix(h, b as u64));
        let used = STEP_ACCESSES.with(|c| c.replace(0));
        self.out.maxv("seq_max_atomic_accesses_in_one_operation", used);
        STEP_WHAT.with(|w| *w.borrow_mut() = format!("seq --prop {} --seed {} --only {}|step {}: {}", self.knobs.prop, self.seed, self.index, self.steps, s));
        if std::env::var_os("VH_DUMP").is_some() {
            eprintln!("[{}] {}   (cursor {} cap {})", self.steps, s, self.model.cursor, self.model.cap);
        }
        self.ops_log.push(s);
    }

    pub fn ctx(&self) -> J {
        let n = self.ops_log.len();
        let st = n.saturating_sub(14);
        crate::jobj!(
            "seed" => self.seed,
            "index" => self.index,
            "step" => self.steps,
            "cfg" => self.cfg.to_json(),
            "runners" => J::Arr(self.runners.iter().zip(self.rels.iter()).map(|(r, rel)| J::Str(format!("{:?}/{:?}/{:?}", rel, r.flavour(), r.cfg().backend))).collect()),
            "last_ops" => J::Arr(self.ops_log[st..].iter().map(|s| J::Str(s.clone())).collect()),
            "model" => crate::jobj!("cursor" => self.model.cursor, "cap" => self.model.cap, "discarded" => self.model.discarded, "min_seg" => self.model.min_seg,
                "list" => J::Arr(self.model.list.iter().map(|x| J::Str(format!("{}+{}", x.0, x.1))).collect())),
            "live" => J::Arr(self.live.iter().take(24).map(|e| J::Str(format!("#{} {:?} acc[{},+{}) buf[{},+{}){}", e.id, e.kind, e.off, e.cap, e.boff, e.bcap, if e.has_handle {""} else {" leaked"}))).collect()),
        )
    }

    pub fn viol(&mut self, props: &[&str], sig: &str, msg: String) {
        // A violation of the property under check ends the history.  A violation of another
        // property is reported (its own check will judge it) and the history goes on with the
        // model re-synchronised from the implementation, so that consequences for the property
        // under check (e.g. an overlap that a wrong release causes later) can still be observed.
        if props.contains(&self.knobs.prop.as_str()) || self.foreign_viols > 20 {
            self.failed = true;
        } else {
            self.foreign_viols += 1;
            self.resync = true;
        }
        let mut d = self.ctx();
        d.set("message", msg);
        d.set("replay_args", format!("seq --prop {} --seed {} --only {}", self.knobs.prop, self.seed, self.index));
        for p in props {
            self.out.viol(p, sig, d.clone());
        }
    }

    /// The model could not follow the implementation on something no property pins down.
    pub fn diverge(&mut self, msg: String) {
        self.failed = true;
        self.out.inc("model_divergence");
        let n = self.ops_log.len();
        self.out.note(&format!(
            "model divergence (not a violation) seed={} index={} step={}: {} | last op: {}",
            self.seed,
            self.index,
            self.steps,
            msg,
            self.ops_log.get(n.wrapping_sub(1)).cloned().unwrap_or_default()
        ));
    }

    fn diff_props(&self, i: usize) -> (&'static [&'static str], &'static str) {
        match self.rels[i] {
            Rel::OtherFlavour => (&["C11"], "sync-vs-unsync"),
            Rel::OtherBackend => (&["C16"], "backend-divergence"),
            Rel::FreshAfterClear => (&["C17"], "cleared-vs-fresh"),
            Rel::Primary => (&["C11"], "primary"),
        }
    }

    pub fn compare_obs(&mut self, what: &str, obs: &[Obs]) -> bool {
        for i in 1..obs.len() {
            if !obs_eq(&obs[0], &obs[i]) {
                let (p, s) = self.diff_props(i);
                let msg = format!("{}: primary {:?} vs {:?} {:?}", what, obs[0], self.rels[i], obs[i]);
                self.viol(p, &format!("{}:result", s), msg);
                return false;
            }
        }
        true
    }

    // -------------------------------------------------------------------------------------
    // invariants after every step

    pub fn check_invariants(&mut self) {
        if self.failed || self.closed {
            return;
        }
        let n = self.runners.len();
        let st0 = self.runners[0].state();
        let snap0 = self.runners[0].snap();
        if self.resync {
            self.resync = false;
            self.model.cursor = st0.allocated;
            self.model.cap = st0.cap;
            self.model.min_seg = st0.min_seg;
            self.model.discarded = st0.discarded;
            self.model.list = snap0.nodes.iter().map(|x| (x.0, x.1)).collect();
            if self.model.cursor > self.model.high_water {
                self.model.high_water = self.model.cursor;
            }
        }
        // (1) primary vs model (quantities the properties pin down are checked where they change;
        //     here: consistency of the adopted model with the implementation)
        if st0.allocated != self.model.cursor || st0.cap != self.model.cap || st0.min_seg != self.model.min_seg {
            let msg = format!(
                "state {:?} vs model cursor={} cap={} min_seg={}",
                st0, self.model.cursor, self.model.cap, self.model.min_seg
            );
            self.diverge(msg);
            return;
        }
        if st0.data_offset != self.model.data_offset {
            let msg = format!("data_offset() changed from {} to {} during the history", self.model.data_offset, st0.data_offset);
            self.viol(&["C16"], "data-offset-changed", msg);
            return;
        }
        if st0.discarded < self.model.discarded {
            let msg = format!("discarded() went down: {} -> {}", self.model.discarded, st0.discarded);
            self.viol(&["C20"], "discarded-decreased", msg);
            return;
        }
        self.model.discarded = st0.discarded;
        for i in 0..n {
            let st = if i == 0 { st0.clone() } else { self.runners[i].state() };
            // C16: remaining == capacity - allocated
            if st.remaining as u64 != st.cap as u64 - st.allocated.min(st.cap) as u64 {
                let msg = format!("remaining()={} capacity()={} allocated()={}", st.remaining, st.cap, st.allocated);
                self.viol(&["C16"], "remaining-mismatch", msg);
                return;
            }
            if i > 0 {
                let mut a = st.clone();
                let mut b = st0.clone();
                a.refs = 0;
                b.refs = 0;
                if self.rels[i] == Rel::FreshAfterClear || self.rels[i] == Rel::OtherBackend || self.rels[i] == Rel::OtherFlavour {
                    if a != b {
                        let (p, s) = self.diff_props(i);
                        let msg = format!("state differs: primary {:?} vs {:?} {:?}", st0, self.rels[i], st);
                        self.viol(p, &format!("{}:state", s), msg);
                        return;
                    }
                    let sn = self.runners[i].snap();
                    if sn.nodes != snap0.nodes || sn.complete != snap0.complete {
                        let (p, s) = self.diff_props(i);
                        let msg = format!("free list differs: primary {:?} vs {:?} {:?}", snap0.nodes, self.rels[i], sn.nodes);
                        self.viol(p, &format!("{}:freelist", s), msg);
                        return;
                    }
                }
            }
            // C13: refs == live arena values + owned handles
            let expect_refs = self.arena_vals.iter().filter(|x| **x).count() + self.live.iter().filter(|e| e.has_handle && e.holds_ref).count();
            if st.refs != expect_refs {
                let msg = format!("refs()={} but {} arena values + owned handles are alive (runner {})", st.refs, expect_refs, i);
                self.viol(&["C13"], "refs-mismatch", msg);
                return;
            }
        }
        // Violations found in (2) and (3) are collected and reported together: one that belongs to another
        // property must not hide one of the property under check found later in the same pass.
        let mut pending: Vec<(&[&str], String, String)> = vec![];
        // (2) free list structure (C10)
        if !snap0.complete {
            if !pending.iter().any(|p| p.1 == "freelist-incomplete") {
                pending.push((&["C10"], ("freelist-incomplete").to_string(), format!("bounded walk did not terminate / left the arena: {:?}", &snap0.nodes[..snap0.nodes.len().min(8)])));
            }
        }
        for (k, nd) in snap0.nodes.iter().enumerate() {
            let (off, ds, _) = *nd;
            let end = off as u64 + NODE as u64 + ds as u64;
            if ds == 0 {
                if !pending.iter().any(|p| p.1 == "freelist-removed-node-linked") {
                    pending.push((&["C10"], ("freelist-removed-node-linked").to_string(), format!("node at {} has size 0 (removed marker) at a quiescent point", off)));
                }
            }
            if off % 8 != 0 || off < self.model.data_offset || (!self.model.rewound && end > self.model.cursor as u64) || end > self.model.cap as u64 {
                if !pending.iter().any(|p| p.1 == "freelist-node-out-of-place") {
                    pending.push((&["C10"], ("freelist-node-out-of-place").to_string(), format!("node {}+{} (end {}) misaligned or outside [data_offset={}, cursor={}) cap={}", off, ds, end, self.model.data_offset, self.model.cursor, self.model.cap)));
                }
            }
            for nd2 in snap0.nodes.iter().skip(k + 1) {
                if ranges_overlap((off, NODE + ds), (nd2.0, NODE + nd2.1)) {
                    if !pending.iter().any(|p| p.1 == "freelist-segments-overlap") {
                        pending.push((&["C10"], ("freelist-segments-overlap").to_string(), format!("segments {}+{} and {}+{} overlap", off, ds, nd2.0, nd2.1)));
                    }
                }
            }
            for e in self.live.iter() {
                if ranges_overlap((off, NODE + ds), (e.off, e.cap)) {
                    let msg = format!("segment {}+{} overlaps live allocation #{} [{},+{})", off, ds, e.id, e.off, e.cap);
                    if !pending.iter().any(|p| p.1 == "freelist-overlaps-live") {
                        pending.push((&["C10", "C01"], ("freelist-overlaps-live").to_string(), msg));
                    }
                }
            }
        }
        if !self.model.ordered_ok(&snap0.nodes) {
            if !pending.iter().any(|p| p.1 == "freelist-order") {
                pending.push((&["C10"], ("freelist-order").to_string(), format!("{} list not ordered by size: {:?}", self.model.fl.name(), snap0.nodes.iter().map(|x| x.1).collect::<Vec<_>>())));
            }
        }
        let mut a: Vec<(u32, u32)> = snap0.nodes.iter().map(|x| (x.0, x.1)).collect();
        let mut b = self.model.list.clone();
        a.sort();
        b.sort();
        if a != b {
            if !pending.iter().any(|p| p.1 == "freelist-content") {
                pending.push((&["C10"], ("freelist-content").to_string(), format!("free list {:?} but the policy model expects {:?}", a, b)));
            }
        }
        // (3) shadow map (C01), reserved prefix (C16)
        for i in 0..n {
            let mem_len = self.runners[i].mem().len();
            for k in 0..self.live.len() {
                let e = &self.live[k];
                if e.cap == 0 {
                    continue;
                }
                let end = e.off as u64 + e.cap as u64;
                if e.off < self.model.data_offset || end > self.model.cursor as u64 || end > mem_len as u64 {
                    let msg = format!("#{} accessible [{},{}) not inside data area [{}, allocated={})", e.id, e.off, end, self.model.data_offset, self.model.cursor);
                    if !pending.iter().any(|p| p.1 == "out-of-data-area") {
                        pending.push((&["C01"], ("out-of-data-area").to_string(), msg));
                    }
                }
                for e2 in self.live.iter().skip(k + 1) {
                    if ranges_overlap((e.off, e.cap), (e2.off, e2.cap)) {
                        let msg = format!("#{} [{},+{}) overlaps #{} [{},+{})", e.id, e.off, e.cap, e2.id, e2.off, e2.cap);
                        if !pending.iter().any(|p| p.1 == "overlap") {
                            pending.push((&["C01"], ("overlap").to_string(), msg));
                        }
                    }
                }
                if end > mem_len as u64 {
                    continue;
                }
                let m = &self.runners[i].mem()[e.off as usize..end as usize];
                if !e.dropper && m != &e.expected[..] {
                    let pos = m.iter().zip(e.expected.iter()).position(|(x, y)| x != y).unwrap_or(0);
                    let msg = format!("#{} byte at offset {} is {:#04x}, owner last wrote {:#04x} (runner {})", e.id, e.off as usize + pos, m[pos], e.expected[pos], i);
                    if !pending.iter().any(|p| p.1 == "bytes-changed") {
                        pending.push((&["C01"], ("bytes-changed").to_string(), msg));
                    }
                }
                for f in self.forever.iter() {
                    if ranges_overlap(*f, (e.off, e.cap)) {
                        let msg = format!("#{} [{},+{}) reuses space [{},+{}) that was discarded for good", e.id, e.off, e.cap, f.0, f.1);
                        if !pending.iter().any(|p| p.1 == "discarded-space-reused") {
                            pending.push((&["C20"], ("discarded-space-reused").to_string(), msg));
                        }
                    }
                }
            }
            if self.runners[i].reserved() != self.reserved_pat {
                if !pending.iter().any(|p| p.1 == "reserved-changed") {
                    pending.push((&["C16"], ("reserved-changed").to_string(), format!("reserved prefix changed (runner {})", i)));
                }
            }
        }
        for (p, sig, msg) in pending {
            self.viol(p, &sig, msg);
        }
        if self.failed || self.resync {
            return;
        }
        // (4) cross-runner memory equality where stated
        for i in 1..n {
            let same = match self.rels[i] {
                Rel::OtherBackend => true,
                Rel::FreshAfterClear => true,
                _ => false,
            };
            if same {
                let (mut a, mut b) = (self.runners[0].mem(), self.runners[i].mem());
                if self.rels[i] == Rel::FreshAfterClear && a.len() == b.len() {
                    // what lies above the cursor was checked to be zero when clear() returned; later
                    // capacity changes of a file may expose stale file content there
                    let u = (if self.truncated_since_clear { self.model.data_offset } else { self.model.cursor } as usize).min(a.len());
                    a = &a[..u];
                    b = &b[..u];
                }
                if !masked_eq(a, b, &self.cfg) {
                    let pos = a.iter().zip(b.iter()).position(|(x, y)| x != y).unwrap_or(a.len().min(b.len()));
                    let (p, s) = self.diff_props(i);
                    let msg = format!("memory images differ at offset {} (len {} vs {})", pos, a.len(), b.len());
                    self.viol(p, &format!("{}:memory", s), msg);
                    return;
                }
            }
        }
        self.prev_mem.clear();
        self.prev_mem.extend_from_slice(self.runners[0].mem());
    }
}

include!("seq_ops.rs");
include!("seq_gen.rs");
