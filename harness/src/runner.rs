//! A `Runner` owns one real arena (plus clones and handles) and executes operations on it.
//! It is type-erased behind `dyn Run` so the history driver can run several runners in
//! lock-step (sync vs unsync, Vec vs anon vs file, cleared vs fresh).

use crate::arena::*;
use crate::model::{Req, RewPos};
use rarena_allocator::verif_hooks::FreelistSnapshot;
use rarena_allocator::{Allocator, ArenaPosition, Error};
use std::collections::BTreeMap;
use std::sync::atomic::Ordering;

#[derive(Clone, Debug, PartialEq, Eq)]
pub struct HInfo {
    pub off: u32,
    pub cap: u32,
    pub boff: u32,
    pub bcap: u32,
    /// address - base, or u64::MAX when no address is reported
    pub addr_rel: u64,
    pub addr_mod64: u32,
}

#[derive(Clone, Debug, PartialEq, Eq)]
pub struct St {
    pub allocated: u32,
    pub discarded: u32,
    pub remaining: u32,
    pub min_seg: u32,
    pub cap: u32,
    pub data_offset: u32,
    pub refs: usize,
}

#[derive(Clone, Debug, PartialEq, Eq)]
pub enum Obs {
    Alloc(Result<HInfo, ErrKind>),
    Unit,
    Bool(bool),
    Discarded(Result<u32, ErrKind>),
    Res(Result<(), String>),
}

pub trait Run {
    fn flavour(&self) -> Flavour;
    fn cfg(&self) -> &Cfg;
    fn state(&self) -> St;
    fn snap(&self) -> FreelistSnapshot;
    fn mem(&self) -> &[u8];
    fn base(&self) -> usize;
    fn read_only(&self) -> bool;
    fn n_arenas(&self) -> usize;
    fn n_handles(&self) -> usize;
    fn arena_alive(&self, idx: usize) -> bool;

    fn alloc(&mut self, id: u64, req: Req, ty: u8, owned: bool, via: usize) -> Obs;
    fn fill(&mut self, id: u64, data: &[u8], safe: bool);
    fn drop_handle(&mut self, id: u64);
    fn detach_drop(&mut self, id: u64);
    fn dealloc(&mut self, boff: u32, bcap: u32) -> Obs;
    fn set_min_seg(&mut self, v: u32);
    fn inc_discarded(&mut self, v: u32);
    fn discard_freelist(&mut self) -> Obs;
    fn rewind(&mut self, pos: RewPos);
    fn clear(&mut self) -> Obs;
    fn truncate(&mut self, n: u32) -> Obs;
    fn clone_arena(&mut self, idx: usize);
    fn drop_arena(&mut self, idx: usize);
    /// kind 0..8: flush, flush_async, flush_range, flush_async_range, flush_header, flush_async_header,
    /// flush_header_and_range, flush_async_header_and_range (ranges inside the mapping)
    fn flush(&mut self, kind: u8) -> Obs;
    fn write_reserved(&mut self, data: &[u8]);
    fn reserved(&self) -> Vec<u8>;
    fn remove_on_drop(&mut self, v: bool);
    /// descriptive accessors as strings (C16)
    fn describe(&self) -> Vec<(String, String)>;
    /// drop everything (handles first); returns nothing
    fn teardown(&mut self);
}

pub struct Runner<A: VArena> {
    pub cfg: Cfg,
    arenas: Vec<Option<Box<A>>>,
    handles: BTreeMap<u64, (Box<dyn Handle>, Option<usize>)>,
}

impl<A: VArena> Runner<A> {
    pub fn from_arena(cfg: Cfg, a: A) -> Self {
        Runner {
            cfg,
            arenas: vec![Some(Box::new(a))],
            handles: BTreeMap::new(),
        }
    }
    pub fn create(cfg: &Cfg) -> Result<Self, String> {
        let a = create::<A>(cfg)?;
        Ok(Self::from_arena(cfg.clone(), a))
    }
    fn any(&self) -> &A {
        self.arenas
            .iter()
            .flatten()
            .next()
            .map(|b| &**b)
            .expect("no live arena value")
    }
    fn stat(&self, idx: usize) -> &'static A {
        let b = self.arenas[idx].as_ref().expect("arena value dropped");
        unsafe { &*(&**b as *const A) }
    }
}

fn hinfo<A: Allocator>(a: &A, h: &mut dyn Handle) -> HInfo {
    let addr = h.addr();
    let base = a.raw_ptr() as usize;
    HInfo {
        off: h.offset() as u32,
        cap: h.capacity() as u32,
        boff: h.buffer_offset() as u32,
        bcap: h.buffer_capacity() as u32,
        addr_rel: if addr == 0 { u64::MAX } else { addr.wrapping_sub(base) as u64 },
        addr_mod64: if addr == 0 { 0 } else { (addr % 64) as u32 },
    }
}

pub fn alloc_any_pub<A: VArena>(a: &'static A, id: u64, req: Req, ty: u8, owned: bool) -> Result<Box<dyn Handle>, Error> {
    alloc_any(a, id, req, ty, owned)
}

fn alloc_any<A: VArena>(a: &'static A, id: u64, req: Req, ty: u8, owned: bool) -> Result<Box<dyn Handle>, Error> {
    match req {
        Req::Bytes(n) => {
            if owned {
                a.alloc_bytes_owned(n).map(|h| Box::new(h) as Box<dyn Handle>)
            } else {
                a.alloc_bytes(n).map(|h| Box::new(h) as Box<dyn Handle>)
            }
        }
        Req::Aligned { extra, .. } => {
            macro_rules! arm {
                ($i:expr, $t:ty) => {
                    if ty == $i {
                        return if owned {
                            a.alloc_aligned_bytes_owned::<$t>(extra).map(|h| Box::new(h) as Box<dyn Handle>)
                        } else {
                            a.alloc_aligned_bytes::<$t>(extra).map(|h| Box::new(h) as Box<dyn Handle>)
                        };
                    }
                };
            }
            crate::for_each_type!(arm);
            unreachable!()
        }
        Req::Typed { .. } => {
            macro_rules! arm {
                ($i:expr, $t:ty) => {
                    if ty == $i {
                        return if owned {
                            unsafe { a.alloc_owned::<$t>() }.map(|mut h| {
                                if let Some(v) = <$t as MenuType>::make(id) {
                                    rarena_allocator::Owned::write(&mut h, v);
                                }
                                Box::new(h) as Box<dyn Handle>
                            })
                        } else {
                            unsafe { a.alloc::<$t>() }.map(|mut h| {
                                if let Some(v) = <$t as MenuType>::make(id) {
                                    rarena_allocator::RefMut::write(&mut h, v);
                                }
                                Box::new(h) as Box<dyn Handle>
                            })
                        };
                    }
                };
            }
            crate::for_each_type!(arm);
            unreachable!()
        }
    }
}

impl<A: VArena> Run for Runner<A> {
    fn flavour(&self) -> Flavour {
        A::FLAVOUR
    }
    fn cfg(&self) -> &Cfg {
        &self.cfg
    }
    fn state(&self) -> St {
        let a = self.any();
        St {
            allocated: a.allocated() as u32,
            discarded: a.discarded(),
            remaining: a.remaining() as u32,
            min_seg: a.minimum_segment_size(),
            cap: a.capacity() as u32,
            data_offset: a.data_offset() as u32,
            refs: a.refs(),
        }
    }
    fn snap(&self) -> FreelistSnapshot {
        self.any().snap()
    }
    fn mem(&self) -> &[u8] {
        self.any().memory()
    }
    fn base(&self) -> usize {
        self.any().raw_ptr() as usize
    }
    fn read_only(&self) -> bool {
        self.any().read_only()
    }
    fn n_arenas(&self) -> usize {
        self.arenas.iter().flatten().count()
    }
    fn n_handles(&self) -> usize {
        self.handles.len()
    }
    fn arena_alive(&self, idx: usize) -> bool {
        self.arenas.get(idx).map_or(false, |a| a.is_some())
    }

    fn alloc(&mut self, id: u64, req: Req, ty: u8, owned: bool, via: usize) -> Obs {
        let a = self.stat(via);
        match alloc_any(a, id, req, ty, owned) {
            Ok(mut h) => {
                let info = hinfo(a, &mut *h);
                self.handles.insert(id, (h, if owned { None } else { Some(via) }));
                Obs::Alloc(Ok(info))
            }
            Err(e) => Obs::Alloc(Err(err_kind(&e))),
        }
    }
    fn fill(&mut self, id: u64, data: &[u8], safe: bool) {
        if let Some((h, _)) = self.handles.get_mut(&id) {
            h.write(data, safe);
        }
    }
    fn drop_handle(&mut self, id: u64) {
        self.handles.remove(&id);
    }
    fn detach_drop(&mut self, id: u64) {
        if let Some((mut h, _)) = self.handles.remove(&id) {
            h.detach();
            drop(h);
        }
    }
    fn dealloc(&mut self, boff: u32, bcap: u32) -> Obs {
        Obs::Bool(unsafe { self.any().dealloc(boff, bcap) })
    }
    fn set_min_seg(&mut self, v: u32) {
        self.any().set_minimum_segment_size(v)
    }
    fn inc_discarded(&mut self, v: u32) {
        self.any().increase_discarded(v)
    }
    fn discard_freelist(&mut self) -> Obs {
        Obs::Discarded(self.any().discard_freelist().map_err(|e| err_kind(&e)))
    }
    fn rewind(&mut self, pos: RewPos) {
        let p = match pos {
            RewPos::Start(n) => ArenaPosition::Start(n),
            RewPos::End(n) => ArenaPosition::End(n),
            RewPos::Current(d) => ArenaPosition::Current(d),
        };
        unsafe { self.any().rewind(p) }
    }
    fn clear(&mut self) -> Obs {
        Obs::Res(unsafe { self.any().clear() }.map_err(|e| format!("{:?}", err_kind(&e))))
    }
    fn truncate(&mut self, n: u32) -> Obs {
        // only the truncated value is used afterwards: requires exactly one arena value
        let idx = self.arenas.iter().position(|a| a.is_some()).unwrap();
        let a = self.arenas[idx].as_mut().unwrap();
        match a.truncate_(n as usize) {
            None => Obs::Res(Err("unsupported".into())),
            Some(r) => Obs::Res(r.map_err(|e| format!("{:?}", e.kind()))),
        }
    }
    fn clone_arena(&mut self, idx: usize) {
        let c = self.any().clone();
        while self.arenas.len() <= idx {
            self.arenas.push(None);
        }
        assert!(self.arenas[idx].is_none());
        self.arenas[idx] = Some(Box::new(c));
    }
    fn drop_arena(&mut self, idx: usize) {
        assert!(
            !self.handles.values().any(|(_, v)| *v == Some(idx)),
            "harness bug: dropping an arena value that is still borrowed"
        );
        self.arenas[idx] = None;
    }
    fn flush(&mut self, kind: u8) -> Obs {
        let a = self.any();
        let (used, d, cap) = (a.allocated(), a.data_offset(), a.capacity());
        let r = match kind % 8 {
            0 => a.flush(),
            1 => a.flush_async(),
            2 => a.flush_range(0, used),
            3 => a.flush_async_range(d.min(cap), used.saturating_sub(d)),
            4 => a.flush_header(),
            5 => a.flush_async_header(),
            6 => a.flush_header_and_range(d.min(cap), used.saturating_sub(d)),
            _ => a.flush_async_header_and_range(0, cap),
        };
        Obs::Res(r.map_err(|e| format!("{:?}", e.kind())))
    }
    fn write_reserved(&mut self, data: &[u8]) {
        let a = self.any();
        if a.reserved_bytes() == 0 {
            return;
        }
        let s = unsafe { a.reserved_slice_mut() };
        let n = s.len().min(data.len());
        s[..n].copy_from_slice(&data[..n]);
    }
    fn reserved(&self) -> Vec<u8> {
        self.any().reserved_slice().to_vec()
    }
    fn remove_on_drop(&mut self, v: bool) {
        self.any().remove_on_drop(v)
    }
    fn describe(&self) -> Vec<(String, String)> {
        let a = self.any();
        vec![
            ("capacity".into(), a.capacity().to_string()),
            ("unify".into(), a.unify().to_string()),
            ("read_only".into(), a.read_only().to_string()),
            ("is_map".into(), a.is_map().to_string()),
            ("is_ondisk".into(), a.is_ondisk().to_string()),
            ("is_inmemory".into(), a.is_inmemory().to_string()),
            ("is_map_anon".into(), a.is_map_anon().to_string()),
            ("is_map_file".into(), a.is_map_file().to_string()),
            ("magic_version".into(), a.magic_version().to_string()),
            ("version".into(), a.version().to_string()),
            ("page_size".into(), a.page_size().to_string()),
            ("minimum_segment_size".into(), a.minimum_segment_size().to_string()),
            ("reserved_bytes".into(), a.reserved_bytes().to_string()),
            ("reserved_slice_len".into(), a.reserved_slice().len().to_string()),
            ("data_offset".into(), a.data_offset().to_string()),
            ("memory_len".into(), a.memory().len().to_string()),
            ("allocated_memory_len".into(), a.allocated_memory().len().to_string()),
            ("data_len".into(), a.data().len().to_string()),
            ("remaining".into(), a.remaining().to_string()),
            ("opt_data_offset".into(), self.cfg.options().data_offset::<A>().to_string()),
            ("opt_data_offset_unify".into(), self.cfg.options().data_offset_unify::<A>().to_string()),
            (
                "path".into(),
                match path_string(a) {
                    Some(p) => p,
                    None => "none".into(),
                },
            ),
        ]
    }
    fn teardown(&mut self) {
        self.handles.clear();
        self.arenas.clear();
    }
}

fn path_string<A: VArena>(a: &A) -> Option<String> {
    // Allocator::Path is Arc<PathBuf> / Rc<PathBuf>; Debug-print it
    a.path().map(|_| "some".to_string())
}

impl<A: VArena> Drop for Runner<A> {
    fn drop(&mut self) {
        self.handles.clear();
        self.arenas.clear();
    }
}

pub fn drops_now() -> usize {
    DROPS.load(Ordering::SeqCst)
}

pub fn new_runner(cfg: &Cfg) -> Result<Box<dyn Run>, String> {
    match cfg.flavour {
        Flavour::Sync => Runner::<rarena_allocator::sync::Arena>::create(cfg).map(|r| Box::new(r) as Box<dyn Run>),
        Flavour::Unsync => Runner::<rarena_allocator::unsync::Arena>::create(cfg).map(|r| Box::new(r) as Box<dyn Run>),
    }
}

pub fn reopen_runner(cfg: &Cfg, mode: OpenMode, cap: Option<u32>, create_flag: bool) -> std::io::Result<Box<dyn Run>> {
    match cfg.flavour {
        Flavour::Sync => reopen::<rarena_allocator::sync::Arena>(cfg, mode, cap, create_flag)
            .map(|a| Box::new(Runner::from_arena(cfg.clone(), a)) as Box<dyn Run>),
        Flavour::Unsync => reopen::<rarena_allocator::unsync::Arena>(cfg, mode, cap, create_flag)
            .map(|a| Box::new(Runner::from_arena(cfg.clone(), a)) as Box<dyn Run>),
    }
}
