//! Counting global allocator: watches a few addresses and counts how often each is freed.
//! (Switch off with VH_NO_WATCH=1 for leak-checking runs: remembering addresses hides leaks.)

use std::alloc::{GlobalAlloc, Layout, System};
use std::sync::atomic::{AtomicUsize, Ordering};

const N: usize = 8;
static WATCH: [AtomicUsize; N] = [const { AtomicUsize::new(0) }; N];
static FREED: [AtomicUsize; N] = [const { AtomicUsize::new(0) }; N];
static ACTIVE: AtomicUsize = AtomicUsize::new(0);

pub struct CountingAlloc;

unsafe impl GlobalAlloc for CountingAlloc {
    unsafe fn alloc(&self, l: Layout) -> *mut u8 {
        let p = System.alloc(l);
        reused(p);
        p
    }
    unsafe fn alloc_zeroed(&self, l: Layout) -> *mut u8 {
        let p = System.alloc_zeroed(l);
        reused(p);
        p
    }
    unsafe fn dealloc(&self, p: *mut u8, l: Layout) {
        if ACTIVE.load(Ordering::Relaxed) != 0 {
            for i in 0..N {
                if WATCH[i].load(Ordering::Relaxed) == p as usize {
                    FREED[i].fetch_add(1, Ordering::Relaxed);
                }
            }
        }
        System.dealloc(p, l)
    }
    unsafe fn realloc(&self, p: *mut u8, l: Layout, n: usize) -> *mut u8 {
        let q = System.realloc(p, l, n);
        if q != p {
            if ACTIVE.load(Ordering::Relaxed) != 0 {
                for i in 0..N {
                    if WATCH[i].load(Ordering::Relaxed) == p as usize {
                        FREED[i].fetch_add(1, Ordering::Relaxed);
                    }
                }
            }
            reused(q);
        }
        q
    }
}

/// The allocator handed a watched (already freed) address out again: stop counting frees of it,
/// they belong to the new block.
#[inline]
fn reused(p: *mut u8) {
    if ACTIVE.load(Ordering::Relaxed) != 0 {
        for i in 0..N {
            if WATCH[i].load(Ordering::Relaxed) == p as usize && FREED[i].load(Ordering::Relaxed) > 0 {
                WATCH[i].store(usize::MAX, Ordering::Relaxed);
            }
        }
    }
}

/// Start watching `addr`; returns a slot.
pub fn watch(addr: usize) -> Option<usize> {
    if std::env::var_os("VH_NO_WATCH").is_some() {
        return None;
    }
    for i in 0..N {
        if WATCH[i].compare_exchange(0, addr, Ordering::SeqCst, Ordering::SeqCst).is_ok() {
            FREED[i].store(0, Ordering::SeqCst);
            ACTIVE.fetch_add(1, Ordering::SeqCst);
            return Some(i);
        }
    }
    None
}

pub fn freed(slot: usize) -> usize {
    FREED[slot].load(Ordering::SeqCst)
}

pub fn unwatch(slot: usize) {
    WATCH[slot].store(0, Ordering::SeqCst);
    ACTIVE.fetch_sub(1, Ordering::SeqCst);
}

/// Is `addr` inside a mapping of this process?  Returns the mapping's pathname field.
pub fn mapped(addr: usize) -> Option<String> {
    let s = std::fs::read_to_string("/proc/self/maps").ok()?;
    for l in s.lines() {
        let mut it = l.split_whitespace();
        let range = it.next()?;
        let mut r = range.split('-');
        let lo = usize::from_str_radix(r.next()?, 16).ok()?;
        let hi = usize::from_str_radix(r.next()?, 16).ok()?;
        if addr >= lo && addr < hi {
            let path = it.nth(4).unwrap_or("").to_string();
            return Some(path);
        }
    }
    None
}
