//! Minimal JSON value, writer and parser (no external crates are available offline
//! with certainty, and the needs are tiny).

use std::collections::BTreeMap;
use std::fmt::Write;

#[derive(Clone, Debug, PartialEq)]
pub enum J {
    Null,
    Bool(bool),
    Int(i128),
    Num(f64),
    Str(String),
    Arr(Vec<J>),
    Obj(Vec<(String, J)>),
}

impl From<&str> for J {
    fn from(s: &str) -> J {
        J::Str(s.to_string())
    }
}
impl From<String> for J {
    fn from(s: String) -> J {
        J::Str(s)
    }
}
impl From<bool> for J {
    fn from(b: bool) -> J {
        J::Bool(b)
    }
}
impl From<f64> for J {
    fn from(b: f64) -> J {
        J::Num(b)
    }
}
macro_rules! from_int {
    ($($t:ty),*) => {$(impl From<$t> for J { fn from(v: $t) -> J { J::Int(v as i128) } })*};
}
from_int!(u8, u16, u32, u64, usize, i8, i16, i32, i64, isize, i128, u128);
impl<T: Into<J>> From<Vec<T>> for J {
    fn from(v: Vec<T>) -> J {
        J::Arr(v.into_iter().map(Into::into).collect())
    }
}

#[macro_export]
macro_rules! jobj {
    ($($k:expr => $v:expr),* $(,)?) => {
        $crate::util::json::J::Obj(vec![$(($k.to_string(), $crate::util::json::J::from($v))),*])
    };
}

impl J {
    pub fn obj() -> J {
        J::Obj(Vec::new())
    }
    pub fn set(&mut self, k: &str, v: impl Into<J>) {
        if let J::Obj(o) = self {
            let v = v.into();
            if let Some(e) = o.iter_mut().find(|(kk, _)| kk == k) {
                e.1 = v;
            } else {
                o.push((k.to_string(), v));
            }
        }
    }
    pub fn get(&self, k: &str) -> Option<&J> {
        match self {
            J::Obj(o) => o.iter().find(|(kk, _)| kk == k).map(|(_, v)| v),
            _ => None,
        }
    }
    pub fn as_str(&self) -> Option<&str> {
        match self {
            J::Str(s) => Some(s),
            _ => None,
        }
    }
    pub fn as_i(&self) -> Option<i128> {
        match self {
            J::Int(i) => Some(*i),
            J::Num(f) => Some(*f as i128),
            _ => None,
        }
    }
    pub fn as_arr(&self) -> Option<&[J]> {
        match self {
            J::Arr(a) => Some(a),
            _ => None,
        }
    }
    pub fn dump(&self) -> String {
        let mut s = String::new();
        self.write(&mut s, None, 0);
        s
    }
    pub fn pretty(&self) -> String {
        let mut s = String::new();
        self.write(&mut s, Some(1), 0);
        s.push('\n');
        s
    }
    fn write(&self, out: &mut String, indent: Option<usize>, depth: usize) {
        let nl = |out: &mut String, d: usize| {
            if let Some(w) = indent {
                out.push('\n');
                for _ in 0..(w * d) {
                    out.push(' ');
                }
            }
        };
        match self {
            J::Null => out.push_str("null"),
            J::Bool(b) => out.push_str(if *b { "true" } else { "false" }),
            J::Int(i) => {
                let _ = write!(out, "{}", i);
            }
            J::Num(f) => {
                if f.is_finite() {
                    let _ = write!(out, "{}", (f * 1000.0).round() / 1000.0);
                } else {
                    out.push_str("null");
                }
            }
            J::Str(s) => esc(out, s),
            J::Arr(a) => {
                out.push('[');
                // short scalar arrays stay on one line
                let scalar = a.iter().all(|x| !matches!(x, J::Arr(_) | J::Obj(_)));
                for (i, v) in a.iter().enumerate() {
                    if i > 0 {
                        out.push(',');
                    }
                    if !scalar {
                        nl(out, depth + 1);
                    }
                    v.write(out, if scalar { None } else { indent }, depth + 1);
                }
                if !scalar && !a.is_empty() {
                    nl(out, depth);
                }
                out.push(']');
            }
            J::Obj(o) => {
                out.push('{');
                for (i, (k, v)) in o.iter().enumerate() {
                    if i > 0 {
                        out.push(',');
                    }
                    nl(out, depth + 1);
                    esc(out, k);
                    out.push(':');
                    if indent.is_some() {
                        out.push(' ');
                    }
                    v.write(out, indent, depth + 1);
                }
                if !o.is_empty() {
                    nl(out, depth);
                }
                out.push('}');
            }
        }
    }
}

fn esc(out: &mut String, s: &str) {
    out.push('"');
    for c in s.chars() {
        match c {
            '"' => out.push_str("\\\""),
            '\\' => out.push_str("\\\\"),
            '\n' => out.push_str("\\n"),
            '\r' => out.push_str("\\r"),
            '\t' => out.push_str("\\t"),
            c if (c as u32) < 0x20 => {
                let _ = write!(out, "\\u{:04x}", c as u32);
            }
            c => out.push(c),
        }
    }
    out.push('"');
}

pub fn parse(s: &str) -> Result<J, String> {
    let b = s.as_bytes();
    let mut p = 0usize;
    let v = val(b, &mut p)?;
    ws(b, &mut p);
    if p != b.len() {
        return Err(format!("trailing data at {}", p));
    }
    Ok(v)
}

fn ws(b: &[u8], p: &mut usize) {
    while *p < b.len() && (b[*p] as char).is_ascii_whitespace() {
        *p += 1;
    }
}

fn val(b: &[u8], p: &mut usize) -> Result<J, String> {
    ws(b, p);
    if *p >= b.len() {
        return Err("eof".into());
    }
    match b[*p] {
        b'{' => {
            *p += 1;
            let mut o = Vec::new();
            loop {
                ws(b, p);
                if *p < b.len() && b[*p] == b'}' {
                    *p += 1;
                    break;
                }
                let k = match val(b, p)? {
                    J::Str(s) => s,
                    _ => return Err("key".into()),
                };
                ws(b, p);
                if *p >= b.len() || b[*p] != b':' {
                    return Err("colon".into());
                }
                *p += 1;
                let v = val(b, p)?;
                o.push((k, v));
                ws(b, p);
                if *p < b.len() && b[*p] == b',' {
                    *p += 1;
                }
            }
            Ok(J::Obj(o))
        }
        b'[' => {
            *p += 1;
            let mut a = Vec::new();
            loop {
                ws(b, p);
                if *p < b.len() && b[*p] == b']' {
                    *p += 1;
                    break;
                }
                a.push(val(b, p)?);
                ws(b, p);
                if *p < b.len() && b[*p] == b',' {
                    *p += 1;
                }
            }
            Ok(J::Arr(a))
        }
        b'"' => {
            *p += 1;
            let mut s = Vec::new();
            while *p < b.len() && b[*p] != b'"' {
                if b[*p] == b'\\' && *p + 1 < b.len() {
                    *p += 1;
                    match b[*p] {
                        b'n' => s.push(b'\n'),
                        b't' => s.push(b'\t'),
                        b'r' => s.push(b'\r'),
                        b'u' => {
                            let h = std::str::from_utf8(&b[*p + 1..*p + 5]).map_err(|e| e.to_string())?;
                            let c = u32::from_str_radix(h, 16).map_err(|e| e.to_string())?;
                            let mut buf = [0u8; 4];
                            s.extend_from_slice(
                                char::from_u32(c).unwrap_or('?').encode_utf8(&mut buf).as_bytes(),
                            );
                            *p += 4;
                        }
                        c => s.push(c),
                    }
                } else {
                    s.push(b[*p]);
                }
                *p += 1;
            }
            *p += 1;
            Ok(J::Str(String::from_utf8_lossy(&s).into_owned()))
        }
        b't' => {
            *p += 4;
            Ok(J::Bool(true))
        }
        b'f' => {
            *p += 5;
            Ok(J::Bool(false))
        }
        b'n' => {
            *p += 4;
            Ok(J::Null)
        }
        _ => {
            let st = *p;
            while *p < b.len() && matches!(b[*p], b'-' | b'+' | b'.' | b'e' | b'E' | b'0'..=b'9') {
                *p += 1;
            }
            let t = std::str::from_utf8(&b[st..*p]).map_err(|e| e.to_string())?;
            if let Ok(i) = t.parse::<i128>() {
                Ok(J::Int(i))
            } else {
                t.parse::<f64>().map(J::Num).map_err(|e| format!("num {:?}: {}", t, e))
            }
        }
    }
}

/// Sorted counters helper.
pub fn counts_to_json(m: &BTreeMap<String, u64>) -> J {
    J::Obj(m.iter().map(|(k, v)| (k.clone(), J::Int(*v as i128))).collect())
}
