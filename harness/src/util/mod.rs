pub mod json;
pub mod rng;
