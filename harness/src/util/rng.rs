//! Small deterministic PRNG (xorshift64* seeded through splitmix64).

#[derive(Clone, Debug)]
pub struct Rng(u64);

pub fn splitmix(mut x: u64) -> u64 {
    x = x.wrapping_add(0x9E37_79B9_7F4A_7C15);
    let mut z = x;
    z = (z ^ (z >> 30)).wrapping_mul(0xBF58_476D_1CE4_E5B9);
    z = (z ^ (z >> 27)).wrapping_mul(0x94D0_49BB_1331_11EB);
    z ^ (z >> 31)
}

/// Order-sensitive 64-bit mixing hash (FNV-like with splitmix finaliser).
pub fn mix(h: u64, v: u64) -> u64 {
    splitmix(h ^ v.wrapping_mul(0x100_0000_01B3).rotate_left(17))
}

impl Rng {
    pub fn new(seed: u64) -> Self {
        let s = splitmix(seed ^ 0xA076_1D64_78BD_642F);
        Rng(if s == 0 { 0x1234_5678_9ABC_DEF1 } else { s })
    }
    pub fn derive(seed: u64, a: u64, b: u64) -> Self {
        Rng::new(mix(mix(seed, a), b))
    }
    pub fn state(&self) -> u64 {
        self.0
    }
    pub fn next(&mut self) -> u64 {
        let mut x = self.0;
        x ^= x >> 12;
        x ^= x << 25;
        x ^= x >> 27;
        self.0 = x;
        x.wrapping_mul(0x2545_F491_4F6C_DD1D)
    }
    /// Uniform in `0..n` (n > 0).
    pub fn below(&mut self, n: u64) -> u64 {
        debug_assert!(n > 0);
        self.next() % n
    }
    pub fn range(&mut self, lo: u64, hi_incl: u64) -> u64 {
        lo + self.below(hi_incl - lo + 1)
    }
    pub fn chance(&mut self, num: u64, den: u64) -> bool {
        self.below(den) < num
    }
    pub fn pick<'a, T>(&mut self, xs: &'a [T]) -> &'a T {
        &xs[self.below(xs.len() as u64) as usize]
    }
    pub fn usize(&mut self, n: usize) -> usize {
        self.below(n as u64) as usize
    }
    pub fn bool(&mut self) -> bool {
        self.next() & 1 == 1
    }
    pub fn byte(&mut self) -> u8 {
        (self.next() >> 24) as u8
    }
    pub fn fill(&mut self, buf: &mut [u8]) {
        for b in buf {
            *b = self.byte();
        }
    }
}
