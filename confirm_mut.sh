#!/bin/bash
# ./confirm_mut.sh <name e.g. C01a> <checks that catch it, free text>
# Confirms a seeded change in a scratch worktree (compiles, 68 baseline tests pass, demo fails with /
# passes without) and stores it under /verif/seeded/<name>/.
N="$1"; shift; CAUGHT="$*"
OUT=/tmp/mut/out-$N
W=/tmp/confirm
export CARGO_NET_OFFLINE=true RUST_BACKTRACE=0 CARGO_TARGET_DIR=/tmp/confirm-target
[ -d $W ] || git -C /repo worktree add -q --detach $W HEAD
cd $W && git checkout -q --detach $(git -C /repo rev-parse HEAD) && git checkout -- . && rm -rf rarena-allocator/tests
FEAT=$(python3 -c "
import json,re
m=json.load(open('$OUT/meta.json')); c=m.get('demo_cmd','')
r=re.search(r'--features[ =]([A-Za-z0-9_,-]+)',c); print(r.group(1) if r else '')")
FARG=""; [ -n "$FEAT" ] && FARG="--features $FEAT"
git apply $OUT/patch.diff || { echo "patch does not apply"; exit 1; }
BASE=$(cargo test --workspace --no-fail-fast --offline 2>&1 | grep -E "^test result" | head -3 | tr '\n' ' ')
mkdir -p rarena-allocator/tests && cp $OUT/demo.rs rarena-allocator/tests/demo.rs
timeout 900 cargo test --offline -p rarena-allocator $FARG --test demo > /tmp/confirm-with.log 2>&1; RC_WITH=$?
git apply -R $OUT/patch.diff
timeout 900 cargo test --offline -p rarena-allocator $FARG --test demo > /tmp/confirm-without.log 2>&1; RC_WITHOUT=$?
rm -rf rarena-allocator/tests; git checkout -- .
echo "baseline with change: $BASE"
echo "demo with change: exit $RC_WITH ; without: exit $RC_WITHOUT"
if [ $RC_WITH -ne 0 ] && [ $RC_WITHOUT -eq 0 ] && echo "$BASE" | grep -q "68 passed; 0 failed"; then
  D=/verif/seeded/$N; mkdir -p $D
  cp $OUT/patch.diff $D/patch.diff; cp $OUT/demo.rs $D/demo.rs
  python3 - "$N" "$RC_WITH" "$RC_WITHOUT" "$BASE" "$FEAT" "$CAUGHT" <<'PY'
import json,sys
n,rw,rwo,base,feat,caught=sys.argv[1:7]
m=json.load(open(f'/tmp/mut/out-{n}/meta.json'))
out={"property":m.get("property"),"summary":m.get("summary"),"needs_to_manifest":m.get("needs_to_manifest"),"files_changed":m.get("files_changed"),
 "demo":"demo.rs (drop into rarena-allocator/tests/ and run: cargo test --offline -p rarena-allocator %s --test demo)"%(("--features "+feat) if feat else ""),
 "confirmed_by_me":{"scratch_worktree":"/tmp/confirm (removed afterwards)","baseline_with_change":base.strip(),"demo_exit_with_change":int(rw),"demo_exit_without_change":int(rwo)},
 "caught_by":caught, "base_commit":__import__('subprocess').run(["git","-C","/repo","rev-parse","--short","HEAD"],capture_output=True,text=True).stdout.strip()}
json.dump(out,open(f'/verif/seeded/{n}/meta.json','w'),indent=1)
PY
  echo "CONFIRMED -> /verif/seeded/$N"
else
  echo "NOT CONFIRMED"; tail -5 /tmp/confirm-with.log; tail -5 /tmp/confirm-without.log
fi
