#!/usr/bin/env python3
"""Fills seeded/<name>/meta.json:caught_by from the mutcheck result files (target/mut*.txt) and notes.json."""
import json,re,glob,os,sys
res={}   # name -> list of (check, exit, sigs)
for f in sorted(glob.glob('/verif/target/mut*.txt')):
    cur=None
    for l in open(f):
        m=re.match(r'=== (\S+) vs (\S+)',l)
        if m:
            cur=(m.group(1),m.group(2)); res.setdefault(cur[0],[]).append([cur[1],None,[]]); continue
        if cur is None: continue
        m=re.match(r'\s+signature: (\S+)',l)
        if m: res[cur[0]][-1][2].append(m.group(1))
        m=re.match(r'exit=(\d+)',l)
        if m: res[cur[0]][-1][1]=int(m.group(1))
notes=json.load(open('/verif/seeded_notes.json')) if os.path.exists('/verif/seeded_notes.json') else {}
for n,runs in res.items():
    p=f'/verif/seeded/{n}/meta.json'
    if not os.path.exists(p): continue
    m=json.load(open(p))
    # keep the last run per check
    last={}
    for c,e,s in runs:
        if e is not None: last[c]=(e,s)
    parts=[]
    for c,(e,s) in sorted(last.items()):
        if e==1: parts.append(f"{c} quick: "+", ".join(sorted(set(s))[:4]))
        elif e==0: parts.append(f"{c} quick: MISSED")
        else: parts.append(f"{c} quick: INCONCLUSIVE (exit {e})")
    txt="; ".join(parts)
    if n in notes: txt=notes[n]+" — "+txt
    m['caught_by']=txt
    json.dump(m,open(p,'w'),indent=1)
print(len(res),'seeded changes updated')
