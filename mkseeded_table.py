#!/usr/bin/env python3
"""Renders the table of seeded changes (from /verif/seeded/*/meta.json) into DESIGN.md between markers."""
import json,glob,os,re
rows=[]
for d in sorted(glob.glob('/verif/seeded/*')):
    m=json.load(open(d+'/meta.json'))
    n=os.path.basename(d)
    summ=(m.get('summary') or '').replace('\n',' ').replace('|','/')
    needs=(m.get('needs_to_manifest') or '').replace('\n',' ').replace('|','/')
    if len(summ)>230: summ=summ[:227]+'...'
    if len(needs)>200: needs=needs[:197]+'...'
    rows.append(f"| `{n}` | {m.get('property')} | {summ} | {needs} | {m.get('caught_by','').replace('|','/')} |")
table="| seeded change | property | what it does | what it needs to manifest | caught by (and what was strengthened) |\n|---|---|---|---|---|\n"+"\n".join(rows)+"\n"
p='/verif/DESIGN.md'; s=open(p).read()
b='<!-- SEEDED-TABLE-BEGIN -->'; e='<!-- SEEDED-TABLE-END -->'
if b not in s:
    s=s.rstrip('\n')+'\n\n'+b+'\n'+e+'\n'
s=re.sub(re.escape(b)+'.*?'+re.escape(e), lambda _ : b+'\n'+table+e, s, flags=re.S)
open(p,'w').write(s)
print(len(rows),'rows')
