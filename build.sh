#!/bin/bash
# ./build.sh <variant>   variants: rel dbg asan tsan miri-setup
set -e
cd /verif/harness
export CARGO_NET_OFFLINE=true CARGO_TERM_COLOR=never
[ -f Cargo.lock ] || cp /repo/Cargo.lock Cargo.lock
case "$1" in
  rel)  cargo build --offline --release --target-dir /verif/target/rel ;;
  dbg)  cargo build --offline --target-dir /verif/target/dbg ;;
  asan) RUSTFLAGS="-Zsanitizer=address -Cforce-frame-pointers=yes -Cllvm-args=-asan-use-after-scope=0" cargo +nightly build --offline --release \
          --target x86_64-unknown-linux-gnu --target-dir /verif/target/asan ;;
  tsan) RUSTFLAGS="-Zsanitizer=thread -Cforce-frame-pointers=yes" cargo +nightly build --offline --release \
          -Zbuild-std --target x86_64-unknown-linux-gnu --target-dir /verif/target/tsan ;;
  miri-setup) MIRI_SYSROOT= cargo +nightly miri setup ;;
  *) echo "unknown variant $1"; exit 3;;
esac
