#!/bin/bash
# ./mutbatch.sh <outfile> <name:ID> ...   — run mutcheck for a list of (seeded change, property) pairs, one after the other
OUT="$1"; shift
for pair in "$@"; do
  n="${pair%%:*}"; id="${pair##*:}"
  echo "=== $n vs $id" >> "$OUT"
  /verif/mutcheck.sh /verif/seeded/$n/patch.diff $id quick >> "$OUT" 2>&1
done
echo "ALL DONE" >> "$OUT"
