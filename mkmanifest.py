#!/usr/bin/env python3
"""Regenerates /verif/MANIFEST.json from the table below (kept in one place so the manifest is always valid)."""
import json, subprocess

SEQ = "E-SEQ"
checks = {
 # id: (engine, category, technique, text, note, design_ref)
 "C01": (SEQ, "exploration", "runtime monitoring: shadow-map oracle over generated single-threaded histories (release, overflow-checked and ASan builds)",
         "Every step of generated histories (all alloc flavours, drop, detach, explicit dealloc, rewind, clear, truncate, reopen, clones) is checked by a shadow map: every live accessible range inside [data_offset, allocated), pairwise disjoint, disjoint from prefix/free-list segments, bytes equal to what the owner last wrote, on every runner (both flavours, three backends, both layouts). Held-on-observed only.",
         "Trusts the harness' shadow map and byte patterns; histories respect the documented contracts of the unsafe calls; ASan/Miri slices see accesses outside the backing store, the shadow map sees those inside.", "§3 E-SEQ, §4 C01"),
 "C03": (SEQ, "exploration", "runtime monitoring: per-allocation assertions on capacity/offset/address over generated histories",
         "Asserts on every successful allocation: exact capacity (alloc_bytes, alloc::<T>), capacity >= size_of::<T>()+n and offset alignment (aligned/typed), pointer == base+offset and address alignment when align <= maximum alignment; for fresh and recycled memory (both counted); zero-sized requests succeed without consuming space even on full arenas. The same assertions run at every allocation return of every thread under the hook-serialised scheduler (E-SCHED families F: threads race aligned/typed requests of mixed alignments through fresh space so the padding changes between cursor load and CAS; B: typed requests against the free list).",
         "Alignment of a zero-sized T is not asserted (the statement leaves it open); address alignment only when align_of::<T>() <= max(maximum_alignment, 8) (Vec) or page (mmap).", "§4 C03"),
 "C05": (SEQ, "exploration", "runtime monitoring: state/bytes/free-list comparison across drop+reopen inside generated file-backed histories",
         "File-backed histories are cut at random points by close + reopen (map_mut / map_copy / map / map_copy_read_only; capacity same, larger, absent; with/without flush; create flag; reopened by the other flavour): allocated, discarded, data_offset, minimum segment size (options carry a different one), magic version, free-list snapshot and memory()[..allocated] must be equal; shadow map and model carry on, so post-reopen allocations may not overlap pre-close live ranges and freed ranges must be reusable.",
         "Page-cache view only (no power-loss model); capacity below the stored cursor is outside the quantifier and never generated.", "§4 C05"),
 "C08": (SEQ, "exploration", "runtime monitoring: zero-check of every returned alloc_bytes buffer, earlier owners fill with non-zero patterns",
         "Every BytesRefMut/BytesMut is read back in full right after return; the generator fills buffers with non-zero patterns before release so recycled, top-released, rewound, discarded-then-fresh and reopened space is dirty; evidence counts checks per provenance class and how many hit dirty space.",
         "Provenance classes are inferred by the harness from the history.", "§4 C08"),
 "C10": (SEQ, "exploration", "runtime monitoring: structural free-list invariants + sequential policy model checked after every step",
         "After every step the free-list snapshot must be complete, 8-aligned, inside the data area below the cursor, disjoint from other segments and live allocations, ordered by size for the policy, and equal (as a set) to the reference model; every slow-path allocation must come from a segment the policy allows, fail only when the policy says so, and split/keep the remainder by the node + minimum-segment-size rule; Freelist::None never reuses.",
         "For typed/aligned requests the statement does not fix the padding demanded, so a band of outcomes is accepted.", "§4 C10"),
 "C11": (SEQ, "exploration", "runtime monitoring: lock-step differential execution sync::Arena vs unsync::Arena",
         "The same generated history runs on both flavours in lock-step; result kind, offset, capacity, buffer extent, allocated, discarded, remaining, minimum segment size and the free-list snapshot are compared after every step (numbers inside InsufficientSpace are not compared).",
         "maximum_retries 0 is outside every quantifier and not generated.", "§4 C11"),
 "C13": (SEQ, "exploration", "runtime monitoring: release-effect oracle, refs() accounting, drop counter, counting global allocator and /proc/self/maps watcher",
         "At every drop the delta of (cursor, free list, discarded) must equal one release of exactly (buffer_offset, buffer_capacity) or nothing for detached handles; a needs_drop value is dropped exactly once; refs() equals live arena values + owned handles after every step; at teardown (random order, original arena possibly first) the Vec backing block is freed exactly once after the last holder (counting allocator), mappings disappear exactly then (/proc/self/maps), remove_on_drop files exist until then and not after. The overflow-checked build also turns a double close of the file descriptor into an abort. After teardown of a file-backed history the file is reopened once more and cursor / discarded / free list must equal the model with the teardown releases applied (reopen-after-teardown). Multi-threaded part: E-SCHED families A and B with refs() accounting under a quiescence guard, creator-drops-first runs, and the counting allocator checked when the last holder goes (backing never / twice / early freed); thorough adds free-running ASan runs with the address-remembering monitors off.",
         "refs() is compared under concurrency only at instants where no other thread is inside an operation that changes it; TSan/Miri teardown ordering belongs to C12.", "§4 C13"),
 "C16": (SEQ, "exploration", "runtime monitoring: closed-form layout reference, accessor table, reserved-prefix pattern, cross-backend memory comparison",
         "Per history: data_offset() vs Options::data_offset{,_unify} and a closed-form reference, accessor table vs constructor, first allocation at the first aligned offset, reserved prefix (pre-filled with a pattern) unchanged after every step, remaining() == capacity()-allocated() after every step, and Vec / anonymous-map / file arenas with the unified layout driven in lock-step must have identical memory() after every step; at every operation boundary data_offset() equals the closed form for the layout actually in effect, allocated() >= data_offset() and no handle starts below it (one third of the histories keep the plain layout). Static sweep (layout.rs): reserved 0..=4096 x layout x backend x flavour against the closed form, and every capacity 0..=prefix+2 refused exactly when below the prefix.",
         "4 padding bytes at the end of the in-memory header are masked in image comparisons (padding of a struct written by ptr::write is unspecified).", "§4 C16"),
 "C17": (SEQ, "exploration", "runtime monitoring: reference clamp in i128 + cleared-vs-fresh differential twin",
         "rewind(pos) over boundary-dense Start/End/Current values in every arena state must land on clamp(target, data_offset, capacity) and change nothing else; after clear() cursor/list/discarded/data area/prefix must be pristine and a freshly created twin arena (same options, current minimum segment size) is driven in lock-step and must be indistinguishable (results, state, free list, memory below the cursor).",
         "After a truncate of a file-backed arena only the prefix is compared between cleared and fresh twins (stale file content above the cursor is outside the statement).", "§4 C17"),
 "C18": (SEQ, "exploration", "runtime monitoring: before/after tuple + byte comparison around truncate, model continues with new capacity",
         "unsync::Arena::truncate(n) for boundary-dense n in generated histories (free list present, detached live data) on Vec/anon/file: capacity == max(n, allocated), everything else and all bytes below allocated unchanged; the model continues with the new capacity so later allocations must succeed exactly when they fit.",
         "Only the truncated value is used afterwards (clones are outside the statement).", "§4 C18"),
 "C20": (SEQ, "exploration", "runtime monitoring: per-step discarded() deltas against the model, forever-discarded range tracking",
         "discarded() may never decrease (except clear); increase_discarded(n) adds n; Freelist::None non-top releases and too-small releases add their size and the range is remembered as never reusable (any later handle intersecting it is a violation); discard_freelist returns the sum of the snapshot's data sizes, adds exactly that, leaves the list empty.",
         "Counter overflow is outside the statement and not generated.", "§4 C20"),
 "C14": ("E-BUF", "exploration", "runtime monitoring: whole-arena before/after images around every buffer call over a type x order x fill x capacity matrix (release, overflow-checked, ASan)",
         "Every put_*/write_*/put_slice/put/put_aligned/set_len/align_to/get_*/varint call of BytesRefMut and BytesMut is executed at every fill level of buffers of capacity 0..40 (fresh, recycled with offset != buffer_offset, aligned with padding, flush against the arena end) on both flavours; the oracle compares return value, len() and a byte image of the whole arena before/after, so a byte touched outside [offset, offset+capacity) inside the arena is seen; put->get round-trips for every type and order; LEB128 round-trips on empty buffers.",
         "Integer values are 5 per case (0, 1, MAX, MIN, byte-distinct xor random); overflow past the arena end is visible to ASan (thorough) or as a child crash.", "§4 C14"),
 "C15": ("E-READ", "exploration", "runtime monitoring: reader results vs reference decode of a private memory copy, all offsets swept, extremes in overflow-checked and unchecked builds",
         "For arenas at several fill states whose bytes at and above the cursor are non-zero continuation bytes, every reader is called at every offset 0..=capacity+16 and at the usize/isize/u32 extremes; Ok must equal the reference decode and occur exactly when the value lies wholly below allocated(); varint readers are compared with a reference decode restricted to the bytes below allocated() (so consuming a byte at or above it changes the result); slice accessor lengths are asserted.",
         "Reference LEB128 decoder is the harness' own; a crash on an extreme offset is observed as the child's death.", "§4 C15"),
 "C19": ("E-CKSUM", "exploration", "runtime monitoring: checksum() vs one-shot reference for two checksummers over swept allocated lengths",
         "checksum(builder) is compared with builder.checksum_one(allocated_memory()[reserved..]) for Crc32 and for a position-dependent streaming hash (any dropped, duplicated or reordered chunk changes it; chunk lengths are recorded and must sum to the reference length) over allocated lengths around and across page multiples (thorough: every length 0..=3 pages+1) x reserved lengths x layouts x flavours.",
         "One page size (4096).", "§4 C19"),
 "C04": ("E-ISO", "exploration", "runtime monitoring: isolated child processes run (state, call, size) cases in overflow-checked and unchecked builds; state tuple + free-list snapshot compared around failing calls; child exit status observed",
         "Every allocation flavour is called with boundary-dense sizes up to u32::MAX on freshly built arenas in five states; a failing call must leave allocated/discarded/remaining/free list untouched, a succeeding one must satisfy the C01/C03 obligations; panics are caught and reported, a signal kills only the child and is attributed to the printed case; thorough adds 4 GiB arenas whose cursor sits next to u32::MAX and an ASan pass.",
         "Sampled configurations; sizes are boundary sets plus random values, not all 2^32.", "§3 E-ISO, §4 C04"),
 "C09": ("E-FILE", "exploration", "runtime monitoring: file mutation sweep with a reference identification rule + before/after file comparison; read-only call matrix in child processes",
         "Valid arena files are mutated (identification bytes x 256 values, truncation to every short length, arbitrary bytes) and opened with every variant x expectation; the verdict is compared with a small reference of the identification rule and the file bytes are compared after every refused, read-only or private open. Every safe mutator (+clear, truncate) is called on read-only arenas of both flavours and both read-only variants: ReadOnly or the documented panic, state and file unchanged, no crash.",
         "The reference rule is the harness' reading of the statement; remove_on_drop belongs to C13.", "§4 C09"),
 "C02": ("E-SCHED", "exploration", "runtime monitoring: hook-serialised schedule fuzzer (random / PCT / window sweep) with shadow-map, pattern and trace-rule monitors; free-running runs under ASan/TSan/Miri in thorough",
         "2..4 real threads run generated programs on clones of one sync::Arena; the wrapper atomics' callback is the yield point of a token scheduler, so every execution is a replayable total order of the crate's atomic accesses and the monitors may inspect global state between any two of them: no two live handles overlap, every handle inside the data area, the bytes of every live handle are re-verified at every operation boundary of any thread, and no atomic write or zeroing by the arena may land in a range that is live for another owner. Family A (byte allocations) and family B (typed/aligned too) are run separately.",
         "Sampled schedules; the serialised executions are sequentially consistent (weak-memory effects are left to C12's Miri runs).", "§3 E-SCHED, §4 C02"),
 "C07": ("E-SCHED", "exploration", "runtime monitoring: bounded-progress monitor over scheduler-controlled executions (logical step budget, fair descheduling of spinning threads)",
         "C07 is decided in its bounded-progress restatement: in a serialised execution, once every other thread is finished, parked or itself spinning, a call must complete within B = (maximum_retries+1) x (capacity/8+2) x 8 atomic accesses; the monitor counts accesses since the last successful write in the whole system, deschedules threads that spin, and reports a violation (with the free-list snapshot and the last events) when every unfinished thread has exceeded B. Programs keep, detach and leak allocations and let threads exit early. Removed-marked nodes still linked at quiescence are reported too.",
         "No finite run decides unbounded liveness: starvation under unfair schedules is out of reach for this technique family; B is computed from the configuration, not from wall-clock time; watchdog firings of free-running children are sightings, never verdicts.", "§4 C07"),
 "C12": ("E-SCHED+TSAN+MIRI", "exploration", "runtime monitoring: vector-clock happens-before monitor over the reported memory orderings + ThreadSanitizer on free-running threads + Miri data-race detection",
         "Three observers: (1) M-hb builds vector clocks from the Ordering arguments the code actually passes (release sequences, failed-CAS orderings) and checks every zeroing event and hand-out of a previously released byte against the releasing thread's clock, and the backing-store free against every other thread's last access; atomic reads/writes of bytes that are user data are reported by the trace rule; (2) ThreadSanitizer runs the same programs with truly parallel threads whose buffer accesses are plain; (3) Miri runs small programs with its data-race detector and weak-memory emulation.",
         "M-hb is exact only for the serialised executions produced; Miri programs are small (<=14 operations per thread); TSan understands only synchronisation it intercepts (all of it here is std/core atomics).", "§4 C12"),
 "C06": ("E-CRASH", "fault_enumeration", "runtime monitoring with fault injection: crash images taken at every atomic access of executed operations, each reopened and run through a recovery oracle; real abort() children validate the snapshot shortcut",
         "For every operation under test of generated file-backed histories, the page-cache image at every point between two consecutive atomic accesses (plus before the first and after the last) is reopened with map_mut and checked: opens, cursor in range, previously returned and unreleased ranges keep their bytes and are never handed out again by an allocation storm, every call terminates within a logical step budget. The fault points of each executed operation are enumerated completely; histories are sampled.",
         "Process death only (no torn or reordered page write-back); step budget 20000 atomic accesses per call; unsync::Arena has no atomic accesses, so its crash points are operation boundaries.", "§3 E-CRASH, §4 C06"),
}

not_applicable = {
}

def main():
    hooks_commits = subprocess.run(["git","-C","/repo","log","--format=%H","--grep=^verif-hooks"],capture_output=True,text=True).stdout.split()
    m = {
      "version": 1,
      "setup_cmd": "./setup.sh",
      "hooks": {
        "guard": "cargo feature verif-hooks of rarena-allocator (off by default)",
        "enable": "the harness crate /verif/harness depends on /repo/rarena-allocator by path with features [memmap, verif-hooks]; every ./check invocation rebuilds it with cargo from the current working tree",
        "baseline_off_cmd": "cd /repo && cargo test --workspace --no-fail-fast --offline",
        "source_commits": hooks_commits,
        "add_only": True,
      },
      "engines": [
        {"name": "E-SEQ", "path": "harness/src/seq.rs", "serves_properties": [k for k,v in checks.items() if v[0]==SEQ], "kind_free_text": "single-threaded history fuzzer: shadow map + sequential reference model + lock-step differential runners; 16 child processes; release, overflow-checked and ASan builds"},
        {"name": "E-BUF", "path": "harness/src/bufs.rs", "serves_properties": ["C14"], "kind_free_text": "buffer call matrix with whole-arena byte images"},
        {"name": "E-READ", "path": "harness/src/readers.rs", "serves_properties": ["C15"], "kind_free_text": "reader sweep against a reference decode"},
        {"name": "E-CKSUM", "path": "harness/src/readers.rs", "serves_properties": ["C19"], "kind_free_text": "checksum sweep with two checksummers"},
        {"name": "E-ISO", "path": "harness/src/iso.rs", "serves_properties": ["C04"], "kind_free_text": "isolated case runner (child process per shard, AT markers, catch_unwind, exit-status classification)"},
        {"name": "E-FILE", "path": "harness/src/files.rs", "serves_properties": ["C09"], "kind_free_text": "file mutation sweep + read-only call matrix"},
        {"name": "E-SCHED", "path": "harness/src/sched.rs", "serves_properties": ["C02","C07","C12","C13"], "kind_free_text": "hook-serialised schedule fuzzer with online monitors (shadow map, trace rule, progress, vector clocks, refs)"},
        {"name": "E-FREE", "path": "harness/src/free.rs", "serves_properties": ["C02","C07","C12","C13"], "kind_free_text": "free-running parallel stress for rel/ASan/TSan/Miri builds; delays injected from the hook without locks"},
        {"name": "E-CRASH", "path": "harness/src/crash.rs", "serves_properties": ["C06"], "kind_free_text": "crash-point sweep: snapshot at every atomic access + recovery oracle + abort() validation children"},
      ],
      "checks": [],
      "not_applicable": [{"property_id":k,"reason":v} for k,v in sorted(not_applicable.items()) if k not in checks],
      "notes": "Technique family: runtime monitoring and sanitizers. Exit codes: 0 held on everything observed (KNOWN-FINDING lines possible), 1 VIOLATION, 2 INCONCLUSIVE (never folded into 0 or 1). VERIF_SEED selects the PRNG seed. known_findings.json is read-only at run time.",
    }
    for k in sorted(checks):
        eng, cat, tech, text, note, ref = checks[k]
        m["checks"].append({
          "property_id": k,
          "quick_cmd": f"./check {k} --tier quick",
          "thorough_cmd": f"./check {k} --tier thorough",
          "evidence_file": f"/verif/evidence/{k}.json",
          "replay_cmd_template": "./check --replay {path}",
          "engine": eng,
          "level_claimed": {"category": cat, "text": text, "design_ref": ref},
          "level_note": note,
          "technique": tech,
        })
    json.dump(m, open("/verif/MANIFEST.json","w"), indent=1)
    print("wrote MANIFEST.json with", len(m["checks"]), "checks,", len(m["not_applicable"]), "not applicable")

main()
