#!/bin/bash
# Run once after a fresh restore (offline): pre-build every harness variant.
cd /verif
mkdir -p target evidence replays
for v in rel dbg asan tsan miri-setup; do
  echo "== building $v"
  ./build.sh $v > target/setup-$v.log 2>&1 || { echo "build of $v failed:"; tail -20 target/setup-$v.log; [ "$v" = rel ] && exit 1; }
done
echo setup done
